------------------------------- MODULE C15_S2c -------------------------------
(***************************************************************************)
(* C15 -- sign-to-contract and the ECDSA anti-exfil protocol.              *)
(*  (1) call-record machine (Pick/Eval, as C01): Out(ev) = specified       *)
(*      result of every API call; Cases/Expand = generated input space.    *)
(*  (2) the two-party protocol machine (PInit/PNext): host and signer      *)
(*      exchange commitment, opening, randomness and signature; TLC        *)
(*      explores every run incl. a cheating reveal and restarts with the   *)
(*      same / different randomness; every step is an API call record.     *)
(* The "ctx" input field selects a context whose SHA-256 compression       *)
(* function was replaced by a correct one: the specification ignores it -- *)
(* results must not depend on it.                                          *)
(***************************************************************************)
EXTENDS S2C, CurveParams, Verif

NBytes(x) == ToBytesBE(x, 32)
Max256 == Sub(Pow2(256), One)
Has(i, f) == f \in DOMAIN i
\* openings travel as 33 bytes through secp256k1_ecdsa_s2c_opening_parse: compressed encodings only
OpeningParse(b) == IF Len(b) = 33 THEN ParsePub(b) ELSE << FALSE, Inf >>

-----------------------------------------------------------------------------
OutS2cSign(i) ==
  LET a == S2cSign(i.key, i.msg, i.data)
      base == [ ret |-> a[1], sig |-> SigBytes(a[2]), icb |-> 0 ]
  IN  IF a[1] = 1 /\ (~Has(i, "open") \/ i.open = 1) THEN base @@ [ oser |-> 1, opening |-> Ser33(a[3]) ] ELSE base
OutAntiExfilSign(i) ==
  LET a == AntiExfilSign(i.key, i.msg, i.data) IN [ ret |-> a[1], sig |-> SigBytes(a[2]), icb |-> 0 ]
OutVerifyCommit(i) ==
  LET so == SigObj(i.sig)  op == OpeningParse(i.opening) IN
  [ pret |-> B2I(so[1]), oret |-> B2I(op[1]), icb |-> 0, ret |-> B2I(op[1] /\ S2cVerifyCommit(so[2], i.data, op[2])) ]
OutHostCommit(i) == [ ret |-> 1, commitment |-> HostCommit(i.rho), icb |-> 0 ]
\* the property quantifies over valid secret keys; for other key bytes only "no callback" is specified
OutSignerCommit(i) ==
  IF ~ParseSecret(i.key)[1] THEN [ icb |-> 0 ]
  ELSE [ ret |-> 1, oser |-> 1, opening |-> Ser33(SignerCommit(i.msg, i.key, i.commitment)), icb |-> 0 ]
OutHostVerify(i) ==
  LET so == SigObj(i.sig)  op == OpeningParse(i.opening)  pk == ParsePub(i.pk) IN
  [ pret |-> B2I(so[1]), oret |-> B2I(op[1]), kret |-> B2I(pk[1]), icb |-> 0,
    ret |-> B2I(op[1] /\ pk[1] /\ HostVerify(so[2], i.msg, pk[2], i.data, op[2])) ]
OutS2cOpening(i) ==
  LET op == OpeningParse(i.opening) IN
  IF op[1] THEN [ pret |-> 1, oser |-> 1, opening |-> Ser33(op[2]), icb |-> 0 ] ELSE [ pret |-> 0, icb |-> 0 ]

Out(ev) == CASE ev.e = "S2cSign"         -> OutS2cSign(ev.in)
             [] ev.e = "AntiExfilSign"   -> OutAntiExfilSign(ev.in)
             [] ev.e = "S2cVerifyCommit" -> OutVerifyCommit(ev.in)
             [] ev.e = "HostCommit"      -> OutHostCommit(ev.in)
             [] ev.e = "SignerCommit"    -> OutSignerCommit(ev.in)
             [] ev.e = "HostVerify"      -> OutHostVerify(ev.in)
             [] ev.e = "S2cOpening"      -> OutS2cOpening(ev.in)

-----------------------------------------------------------------------------
\* design-level theorems on generated signing records
SignSound(i, o) ==
  o.ret = 1 =>
    LET so == SigObj(o.sig)  Q == PMulG(FromBytesBE(i.key)) IN
    /\ so[1] /\ ~IsHigh(so[2][2]) /\ VerifyEq(so[2][1], so[2][2], i.msg, Q)                  \* a valid low-S ECDSA signature
    /\ (Has(o, "opening") =>
          LET R == ParsePub(o.opening)[2] IN
          /\ S2cVerifyCommit(so[2], i.data, R)                                               \* the commitment opens for the datum
          /\ ~S2cVerifyCommit(so[2], FlipBit(i.data, 255), R)                                \* and not for another one
          /\ ~S2cVerifyCommit(so[2], i.data, PNeg(R))
          /\ HostVerify(so[2], i.msg, Q, i.data, R)
          /\ R = SignerCommit(i.msg, i.key, HostCommit(i.data)))                             \* = what the signer commits to beforehand
SignTotal(i, o) == ParseSecret(i.key)[1] <=> o.ret = 1
SignFailZero(i, o) == o.ret = 0 => AllZero(o.sig)

-----------------------------------------------------------------------------
\* generated input space
Thorough == EnvNat("VERIF_THOROUGH") = 1
Rs(j) == LET x == Mod(FromBytesBE(Rnd32(j)), N) IN IF IsZero(x) THEN One ELSE x
KeySeq  == << One, Sub(N, One), Rs(1), Rs(2), Zero, N, Max256 >>          \* 1..4 valid
MsgSeq  == << Zero, Sub(N, One), N, Add(N, One), Max256, FromBytesBE(Rnd32(5)), Add(Pow2(255), Pow2(254)) >>
DataSeq == << Zeros(32), Rep(255, 32), Rnd32(7), Rnd32(8) >>

\* one honest signature (message >= n) that all mutation cases start from
HKey  == NBytes(Rs(11))
HMsg  == NBytes(Add(N, FromBytesBE(SubSeq(Rnd32(13), 1, 15))))
HData == Rnd32(14)
HPk   == Ser33(PMulG(FromBytesBE(HKey)))
HS    == S2cSign(HKey, HMsg, HData)
HSig  == SigBytes(HS[2])
HOpen == Ser33(HS[3])

\* a tuple of sets of descriptors (no union is built: TLC's set union is quadratic)
Cases == <<
       { << "sign", k, m, d >> : k \in 1..7, m \in 1..7, d \in (IF Thorough THEN 1..4 ELSE 1..3) }
     , { << "aesign", k, m, d >> : k \in 1..7, m \in {3, 5, 6}, d \in {1, 3} }
     , { << "scommit", k, m, d, x >> : k \in 1..4, m \in 1..7, d \in 1..3, x \in {0, 1} }
     , { << "scommitraw", k, m, x >> : k \in 1..7, m \in {3, 5}, x \in {0, 1} }
     , { << "hcommit", d, x >> : d \in 1..4, x \in {0, 1} }
     , { << "vcflip", w, b >> : w \in {1}, b \in 0..511 }
     , { << "vcflip", w, b >> : w \in {2}, b \in 0..255 }
     , { << "vcflip", w, b >> : w \in {3}, b \in 0..263 }
     , { << "hvflip", w, b >> : w \in {1}, b \in 0..511 }
     , { << "hvflip", w, b >> : w \in {2}, b \in 0..255 }
     , { << "hvflip", w, b >> : w \in {3}, b \in 0..263 }
     , { << "hvflip", w, b >> : w \in {4}, b \in { x \in 0..255 : Thorough \/ x % 4 = 3 } }
     , { << "hvflip", w, b >> : w \in {5}, b \in { x \in 0..263 : Thorough \/ x % 4 = 3 } }
     , { << "vc", v, x >> : v \in 1..12, x \in {0, 1} }
     , { << "hv", v, x >> : v \in 1..12, x \in {0, 1} }
     , { << "open", v >> : v \in 1..12 } >>

Ctx(x) == IF x = 1 THEN [ ctx |-> 1 ] ELSE [ ctx |-> 0 ]
VC(sig, data, opening, x) == [ e |-> "S2cVerifyCommit", in |-> [ sig |-> sig, data |-> data, opening |-> opening ] @@ Ctx(x) ]
HV(sig, msg, pk, data, opening, x) ==
  [ e |-> "HostVerify", in |-> [ sig |-> sig, msg |-> msg, pk |-> pk, data |-> data, opening |-> opening ] @@ Ctx(x) ]
NegEnc(b) == << 5 - b[1] >> \o SubSeq(b, 2, 33)
OffCurveX(x) == LET j == CHOOSE j \in 1..64 : ~LiftX(Mod(Add(x, FromNat(j)), P))[1] IN Mod(Add(x, FromNat(j)), P)

\* structured variants of (signature, datum, opening) around the honest triple
TripleVariant(v) ==
  LET r == HS[2][1]  s == HS[2][2]  cs(a, b) == NBytes(a) \o NBytes(b)  R == HS[3]
      C == S2cCommitPoint(R, HData)[2]  x == FromBytesBE(SubSeq(HOpen, 2, 33)) IN
  CASE v = 1 -> << HSig, HData, HOpen >>
    [] v = 2 -> << cs(r, SNeg(s)), HData, HOpen >>                     \* high-S twin: commitment holds, ECDSA does not
    [] v = 3 -> << cs(r, Zero), HData, HOpen >>
    [] v = 4 -> << cs(r, One), HData, HOpen >>
    [] v = 5 -> << cs(Zero, s), HData, HOpen >>
    [] v = 6 -> << cs(N, s), HData, HOpen >>                           \* unparsable signature -> zero object
    [] v = 7 -> << HSig, HData, NegEnc(HOpen) >>                       \* -R: same x coordinate, other parity
    [] v = 8 -> << HSig, HData, Ser33(C) >>                            \* the committed nonce point itself is not an opening
    [] v = 9 -> << HSig, Zeros(32), HOpen >>
    [] v = 10 -> << HSig, HostCommit(HData), HOpen >>                  \* the host commitment instead of the datum
    [] v = 11 -> << HSig, HData, << HOpen[1] >> \o NBytes(OffCurveX(x)) >>
    [] v = 12 -> << cs(SAdd(r, One), s), HData, HOpen >>
\* another signature of the same key and message (other datum): ECDSA holds, commitment does not
H2 == S2cSign(HKey, HMsg, Rnd32(15))
ExpandHv(v, x) ==
  LET t == TripleVariant(v)  Q == PMulG(FromBytesBE(HKey)) IN
  CASE v \in {1, 2, 3, 7} -> HV(t[1], HMsg, HPk, t[2], t[3], x)
    [] v = 4 -> HV(HSig, HMsg, Ser65(Q), HData, HOpen, x)                                  \* uncompressed key
    [] v = 5 -> HV(HSig, HMsg, NegEnc(HPk), HData, HOpen, x)
    [] v = 6 -> HV(HSig, NBytes(Sub(FromBytesBE(HMsg), N)), HPk, HData, HOpen, x)          \* message - n: the same scalar
    [] v = 8 -> HV(SigBytes(H2[2]), HMsg, HPk, HData, HOpen, x)
    [] v = 9 -> HV(SigBytes(H2[2]), HMsg, HPk, Rnd32(15), Ser33(H2[3]), x)
    [] v = 10 -> HV(SigBytes(SignDefault(HKey, HMsg, << >>)[2]), HMsg, HPk, HData, HOpen, x)   \* ordinary signature
    [] v = 11 -> HV(HSig, HMsg, << 4 >> \o SubSeq(HPk, 2, 33), HData, HOpen, x)             \* unparsable key
    [] v = 12 -> HV(HSig, HMsg, HPk, HData, Ser33(H2[3]), x)
ExpandOpen(v) ==
  LET x == FromBytesBE(SubSeq(HOpen, 2, 33))  o(b) == [ e |-> "S2cOpening", in |-> [ opening |-> b ] @@ Ctx(v % 2) ] IN
  CASE v = 1 -> o(HOpen)
    [] v = 2 -> o(NegEnc(HOpen))
    [] v = 3 -> o(<< 0 >> \o SubSeq(HOpen, 2, 33))
    [] v = 4 -> o(<< 4 >> \o SubSeq(HOpen, 2, 33))
    [] v = 5 -> o(<< 6 >> \o SubSeq(HOpen, 2, 33))
    [] v = 6 -> o(<< 7 >> \o SubSeq(HOpen, 2, 33))
    [] v = 7 -> o(<< 2 >> \o NBytes(P))
    [] v = 8 -> o(<< 3 >> \o NBytes(Max256))
    [] v = 9 -> o(<< 2 >> \o NBytes(OffCurveX(x)))
    [] v = 10 -> o(<< 2 >> \o NBytes(Zero))
    [] v = 11 -> o(Ser33(G))
    [] v = 12 -> o(<< 3 >> \o NBytes(Sub(P, One)))

Expand(c) ==
  CASE c[1] = "sign" -> [ e |-> "S2cSign", in |-> [ key |-> NBytes(KeySeq[c[2]]), msg |-> NBytes(MsgSeq[c[3]]), data |-> DataSeq[c[4]] ]
                                                  @@ Ctx((c[2] + c[3] + c[4]) % 2) ]
    [] c[1] = "aesign" -> [ e |-> "AntiExfilSign", in |-> [ key |-> NBytes(KeySeq[c[2]]), msg |-> NBytes(MsgSeq[c[3]]), data |-> DataSeq[c[4]] ]
                                                  @@ Ctx((c[2] + c[3]) % 2) ]
    [] c[1] = "scommit" -> [ e |-> "SignerCommit", in |-> [ key |-> NBytes(KeySeq[c[2]]), msg |-> NBytes(MsgSeq[c[3]]),
                                                           commitment |-> HostCommit(DataSeq[c[4]]) ] @@ Ctx(c[5]) ]
    [] c[1] = "scommitraw" -> [ e |-> "SignerCommit", in |-> [ key |-> NBytes(KeySeq[c[2]]), msg |-> NBytes(MsgSeq[c[3]]),
                                                              commitment |-> DataSeq[c[3] - 1] ] @@ Ctx(c[4]) ]
    [] c[1] = "hcommit" -> [ e |-> "HostCommit", in |-> [ rho |-> DataSeq[c[2]] ] @@ Ctx(c[3]) ]
    [] c[1] = "vcflip" -> VC(IF c[2] = 1 THEN FlipBit(HSig, c[3]) ELSE HSig, IF c[2] = 2 THEN FlipBit(HData, c[3]) ELSE HData,
                             IF c[2] = 3 THEN FlipBit(HOpen, c[3]) ELSE HOpen, c[3] % 2)
    [] c[1] = "hvflip" -> HV(IF c[2] = 1 THEN FlipBit(HSig, c[3]) ELSE HSig, IF c[2] = 4 THEN FlipBit(HMsg, c[3]) ELSE HMsg,
                             IF c[2] = 5 THEN FlipBit(HPk, c[3]) ELSE HPk, IF c[2] = 2 THEN FlipBit(HData, c[3]) ELSE HData,
                             IF c[2] = 3 THEN FlipBit(HOpen, c[3]) ELSE HOpen, (c[3] + 1) % 2)
    [] c[1] = "vc" -> LET t == TripleVariant(c[2]) IN VC(t[1], t[2], t[3], c[3])
    [] c[1] = "hv" -> ExpandHv(c[2], c[3])
    [] c[1] = "open" -> ExpandOpen(c[2])

-----------------------------------------------------------------------------
VARIABLES phase, cur, rec
vars == << phase, cur, rec >>
Init == phase = "pick" /\ cur = << >> /\ rec = << >>
Pick == phase = "pick" /\ \E j \in DOMAIN Cases : \E c \in Cases[j] : cur' = c /\ phase' = "eval" /\ rec' = << >>
Eval == phase = "eval" /\ LET x == Expand(cur) IN rec' = [ e |-> x.e, in |-> x.in, out |-> Out(x) ]
        /\ phase' = "done" /\ cur' = cur
Next == Pick \/ Eval
InvSign == (phase = "done" /\ rec.e = "S2cSign") =>
             SignSound(rec.in, rec.out) /\ SignTotal(rec.in, rec.out) /\ SignFailZero(rec.in, rec.out)
InvAeSign == (phase = "done" /\ rec.e = "AntiExfilSign") =>   \* the same signature as sign-to-contract signing
             rec.out.sig = SigBytes(S2cSign(rec.in.key, rec.in.msg, rec.in.data)[2])
\* the honest triple: host verification accepts exactly when the commitment check and ECDSA verification accept
InvHostVerify == (phase = "done" /\ rec.e = "HostVerify" /\ rec.out.oret = 1 /\ rec.out.kret = 1) =>
   LET i == rec.in  so == SigObj(i.sig)[2] IN
   (rec.out.ret = 1) <=> (S2cVerifyCommit(so, i.data, ParsePub(i.opening)[2]) /\ VerifyEq(so[1], so[2], i.msg, ParsePub(i.pk)[2]))
Emit == phase = "done" => EmitRecord(rec)

-----------------------------------------------------------------------------
\* (2) the two-party anti-exfil protocol machine.  cur is the joint state of host and signer:
\*   k, m     key / message index            h   index of the host's randomness rho
\*   c        commitment sent to the signer  op  opening sent to the host (33 bytes)
\*   rv       index of the randomness the host reveals (a cheating host reveals another one)
\*   sig      signature sent to the host     sop opening the signing call exported
\*   ok       host's verdict                 run 1 or 2 (after a restart); *1 = values of run 1
PKeys == << NBytes(One), NBytes(Rs(41)), NBytes(Sub(N, One)) >>
PMsgs == << NBytes(Max256), Rnd32(42), NBytes(N), NBytes(Zero) >>
PRhos == << Zeros(32), Rnd32(43), Rnd32(44) >>
OtherRho(h) == (h % 3) + 1
PFresh(k, m, h) == [ k |-> k, m |-> m, h |-> h, run |-> 1, c |-> << >>, op |-> << >>, rv |-> 0, sig |-> << >>, sop |-> << >>, ok |-> 2,
                     h1 |-> 0, op1 |-> << >>, sig1 |-> << >>, rv1 |-> 0 ]
PInit == /\ phase = "start" /\ rec = << >>
         /\ cur \in { PFresh(k, m, h) : k \in 1..(IF Thorough THEN 3 ELSE 2), m \in 1..(IF Thorough THEN 4 ELSE 2), h \in 1..3 }
PCtx == [ ctx |-> cur.run - 1 ]     \* the second run goes through the context with the replaced compression function
PPk == Ser33(PMulG(FromBytesBE(PKeys[cur.k])))

PHostCommit ==
  /\ phase = "start" /\ phase' = "committed"
  /\ LET c == HostCommit(PRhos[cur.h]) IN
     /\ cur' = [ cur EXCEPT !.c = c ]
     /\ rec' = [ e |-> "HostCommit", in |-> [ rho |-> PRhos[cur.h] ] @@ PCtx, out |-> [ ret |-> 1, commitment |-> c, icb |-> 0 ] ]
PSignerCommit ==
  /\ phase = "committed" /\ phase' = "opened"
  /\ LET op == Ser33(SignerCommit(PMsgs[cur.m], PKeys[cur.k], cur.c)) IN
     /\ cur' = [ cur EXCEPT !.op = op ]
     /\ rec' = [ e |-> "SignerCommit", in |-> [ key |-> PKeys[cur.k], msg |-> PMsgs[cur.m], commitment |-> cur.c ] @@ PCtx,
                 out |-> [ ret |-> 1, oser |-> 1, opening |-> op, icb |-> 0 ] ]
\* the host receives the opening (through the parser) and reveals its randomness -- or, cheating, another value
PHostReveal ==
  /\ phase = "opened" /\ phase' = "revealed"
  /\ \E r \in { cur.h, OtherRho(cur.h) } : cur' = [ cur EXCEPT !.rv = r ]
  /\ rec' = [ e |-> "S2cOpening", in |-> [ opening |-> cur.op ] @@ PCtx, out |-> [ pret |-> 1, oser |-> 1, opening |-> cur.op, icb |-> 0 ] ]
PSign ==
  /\ phase = "revealed" /\ phase' = "signed"
  /\ LET a == S2cSign(PKeys[cur.k], PMsgs[cur.m], PRhos[cur.rv])
         i == [ key |-> PKeys[cur.k], msg |-> PMsgs[cur.m], data |-> PRhos[cur.rv] ] @@ PCtx IN
     /\ cur' = [ cur EXCEPT !.sig = SigBytes(a[2]), !.sop = Ser33(a[3]) ]
     /\ rec' = IF cur.run = 1 THEN [ e |-> "AntiExfilSign", in |-> i, out |-> [ ret |-> a[1], sig |-> SigBytes(a[2]), icb |-> 0 ] ]
               ELSE [ e |-> "S2cSign", in |-> i, out |-> [ ret |-> a[1], sig |-> SigBytes(a[2]), oser |-> 1, opening |-> Ser33(a[3]), icb |-> 0 ] ]
PHostVerify ==
  /\ phase = "signed" /\ phase' = "verified"
  /\ LET ok == B2I(HostVerify(SigObj(cur.sig)[2], PMsgs[cur.m], ParsePub(PPk)[2], PRhos[cur.h], ParsePub(cur.op)[2])) IN
     /\ cur' = [ cur EXCEPT !.ok = ok ]
     /\ rec' = [ e |-> "HostVerify", in |-> [ sig |-> cur.sig, msg |-> PMsgs[cur.m], pk |-> PPk, data |-> PRhos[cur.h], opening |-> cur.op ] @@ PCtx,
                 out |-> [ pret |-> 1, oret |-> 1, kret |-> 1, ret |-> ok, icb |-> 0 ] ]
\* "it is okay to restart the protocol using exactly the same rho and checking that the device proposes exactly the same R"
PRestart ==
  /\ phase = "verified" /\ cur.run = 1 /\ phase' = "start" /\ rec' = << >>
  /\ \E h2 \in { cur.h, OtherRho(cur.h) } :
       cur' = [ PFresh(cur.k, cur.m, h2) EXCEPT !.run = 2, !.h1 = cur.h, !.op1 = cur.op, !.sig1 = cur.sig, !.rv1 = cur.rv ]
PNext == PHostCommit \/ PSignerCommit \/ PHostReveal \/ PSign \/ PHostVerify \/ PRestart

Signed == phase \in { "signed", "verified" }
\* the opening the signer committed to is the opening of the later signature iff the host revealed what it committed to
PInvOpening == Signed => ((cur.rv = cur.h) <=> (cur.sop = cur.op))
\* the honest signer's signature always verifies; the host accepts iff the commitment check accepts iff it revealed honestly
PInvVerify == phase = "verified" =>
   LET so == SigObj(cur.sig)[2]  Q == ParsePub(PPk)[2] IN
   /\ VerifyEq(so[1], so[2], PMsgs[cur.m], Q)
   /\ (cur.ok = 1) <=> S2cVerifyCommit(so, PRhos[cur.h], ParsePub(cur.op)[2])
   /\ (cur.ok = 1) <=> (cur.rv = cur.h)
\* restart: same randomness => same opening, different randomness => different nonce
PInvRestart == (cur.run = 2 /\ phase \notin { "start", "committed" }) => ((cur.h = cur.h1) <=> (cur.op = cur.op1))
PInvNonce == (cur.run = 2 /\ Signed) => ((cur.rv = cur.rv1) <=> (SubSeq(cur.sig, 1, 32) = SubSeq(cur.sig1, 1, 32)))
PEmit == phase # "start" => EmitRecord(rec)

-----------------------------------------------------------------------------
\* T direction
TraceEvents == LoadTrace
TInit == phase = "pick" /\ cur = 0 /\ rec = TRUE
TPick == phase = "pick" /\ \E i \in 1..Len(TraceEvents) : cur' = i /\ phase' = "eval" /\ rec' = rec
TEval == phase = "eval" /\ rec' = SubRec(Out(TraceEvents[cur]), TraceEvents[cur].out) /\ phase' = "done" /\ cur' = cur
TNext == TPick \/ TEval
TraceOK == rec = TRUE
=============================================================================
