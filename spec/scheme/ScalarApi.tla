------------------------------- MODULE ScalarApi -------------------------------
(***************************************************************************)
(* The scalar API of src/scalar.h: every operation as exact arithmetic     *)
(* modulo the group order N (Curve.tla: SAdd, SMul, SNeg, SInv).            *)
(* Scalars enter as 32 big-endian bytes and are reduced by set_b32.        *)
(*                                                                         *)
(* split_lambda is specified twice: by its documented post-condition       *)
(* (ScSplitPost: r1 + lambda*r2 = k mod N, |r1| < k1_bound, |r2| <         *)
(* k2_bound, hence both below 2^128 in absolute value) and by the          *)
(* documented algorithm (scalar_impl.h:100-140: c_i = round(k*g_i/2^384),  *)
(* r2 = c1*(-b1) + c2*(-b2), r1 = k - r2*lambda) which fixes the bytes all *)
(* configurations must agree on.  lambda, g1, g2, -b1, -b2 and the two     *)
(* bounds are constants copied from scalar_impl.h (inputs, not code).      *)
(***************************************************************************)
EXTENDS Curve, Integers

ScLambda == FromBytesBE(<< 83, 99, 173, 76, 192, 92, 48, 224, 165, 38, 28, 2, 136, 18, 100, 90, 18, 46, 34, 234, 32, 129, 102, 120, 223, 2, 150, 124, 27, 35, 189, 114 >>)
ScMinusB1 == FromBytesBE(<< 0, 0, 0, 0, 0, 0, 0, 0, 0, 0, 0, 0, 0, 0, 0, 0, 228, 67, 126, 214, 1, 14, 136, 40, 111, 84, 127, 169, 10, 191, 228, 195 >>)
ScMinusB2 == FromBytesBE(<< 255, 255, 255, 255, 255, 255, 255, 255, 255, 255, 255, 255, 255, 255, 255, 254, 138, 40, 10, 197, 7, 116, 52, 109, 215, 101, 205, 168, 61, 177, 86, 44 >>)
ScG1 == FromBytesBE(<< 48, 134, 210, 33, 167, 212, 107, 205, 232, 108, 144, 228, 146, 132, 235, 21, 61, 170, 138, 20, 113, 232, 202, 127, 232, 147, 32, 154, 69, 219, 176, 49 >>)
ScG2 == FromBytesBE(<< 228, 67, 126, 214, 1, 14, 136, 40, 111, 84, 127, 169, 10, 191, 228, 196, 34, 18, 8, 172, 157, 245, 6, 198, 21, 113, 180, 174, 138, 196, 127, 113 >>)
ScK1Bound == FromBytesBE(<< 162, 168, 145, 140, 168, 91, 175, 226, 32, 22, 208, 185, 23, 228, 221, 119 >>)
ScK2Bound == FromBytesBE(<< 138, 101, 40, 123, 212, 113, 121, 251, 43, 224, 136, 70, 206, 162, 103, 237 >>)
ScA1 == FromBytesBE(<< 48, 134, 210, 33, 167, 212, 107, 205, 232, 108, 144, 228, 146, 132, 235, 21 >>)
ScA2 == FromBytesBE(<< 1, 20, 202, 80, 247, 168, 226, 243, 246, 87, 193, 16, 141, 157, 68, 207, 216 >>)
FeBeta == FromBytesBE(<< 122, 233, 106, 43, 101, 124, 7, 16, 110, 100, 71, 158, 172, 52, 52, 233, 156, 240, 73, 117, 18, 245, 137, 149, 193, 57, 108, 40, 113, 149, 1, 238 >>)
\* scalars near the split bounds (src/tests.c scalars_near_split_bounds: first of each group of four; the pool adds +0..+3)
ScNear == << FromBytesBE(<< 217, 56, 165, 102, 127, 71, 158, 62, 181, 179, 199, 250, 239, 219, 55, 73, 58, 160, 88, 92, 197, 234, 35, 103, 225, 182, 96, 219, 2, 9, 230, 252 >>),
             FromBytesBE(<< 44, 156, 82, 179, 63, 163, 207, 31, 90, 217, 227, 253, 119, 237, 155, 165, 178, 148, 184, 147, 55, 34, 233, 165, 0, 230, 152, 202, 76, 247, 99, 45 >>),
             FromBytesBE(<< 127, 255, 255, 255, 255, 255, 255, 255, 255, 255, 255, 255, 255, 255, 255, 255, 213, 118, 231, 53, 87, 164, 80, 29, 223, 233, 47, 70, 104, 27, 32, 159 >>),
             FromBytesBE(<< 211, 99, 173, 76, 192, 92, 48, 224, 165, 38, 28, 2, 136, 18, 100, 89, 248, 89, 21, 215, 120, 37, 182, 150, 190, 235, 197, 194, 131, 62, 222, 17 >>),
             FromBytesBE(<< 38, 199, 90, 153, 128, 184, 97, 193, 74, 76, 56, 5, 16, 36, 200, 180, 112, 77, 118, 14, 233, 94, 124, 211, 222, 27, 253, 177, 206, 44, 90, 66 >>) >>

\* the constants are what the header says they are (evaluated once by TLC)
ScConstantsOK ==
  /\ SAdd(SAdd(SMul(ScLambda, ScLambda), ScLambda), One) = Zero            \* lambda^2 + lambda + 1 = 0 (mod N)
  /\ FAdd(FAdd(FMul(FeBeta, FeBeta), FeBeta), One) = Zero                  \* beta^2 + beta + 1 = 0 (mod P)
  /\ SAdd(ScA1, SMul(SNeg(ScMinusB1), ScLambda)) = Zero                    \* a1 + b1*lambda = 0
  /\ SAdd(ScA2, SMul(ScA1, ScLambda)) = Zero                               \* a2 + b2*lambda = 0  (b2 = a1)
  /\ ScMinusB2 = SNeg(ScA1)
  /\ ScK1Bound = Shr(Add(Add(ScA1, ScA2), One), 1)                         \* (a1 + a2 + 1)/2
  /\ ScK2Bound = Add(Shr(Add(ScMinusB1, ScA1), 1), One)                    \* (-b1 + b2)/2 + 1

ScOfBytes(b) == Mod(FromBytesBE(b), N)
Sc32(x) == ToBytesBE(x, 32)
ScHalfInv == SInv(Two)
\* "multiply a and b (without taking the modulus!), divide by 2**shift, and round to the nearest integer"
ScMulShift(a, b, shift) == LET x == Mul(a, b) IN Add(Shr(x, shift), FromNat(Bit(x, shift - 1)))
ScSplitLambda(k) ==
  LET c1 == ScMulShift(k, ScG1, 384)   c2 == ScMulShift(k, ScG2, 384)
      r2 == SAdd(SMul(c1, ScMinusB1), SMul(c2, ScMinusB2))
  IN  << SSub(k, SMul(r2, ScLambda)), r2 >>
ScAbsLt(x, bound) == Lt(x, bound) \/ Lt(SNeg(x), bound)
ScSplitPost(k, r1, r2) ==
  /\ SAdd(r1, SMul(ScLambda, r2)) = k
  /\ ScAbsLt(r1, ScK1Bound) /\ ScAbsLt(r2, ScK2Bound)
  /\ ScAbsLt(r1, Pow2(128)) /\ ScAbsLt(r2, Pow2(128))
ScBool(b) == IF b THEN 1 ELSE 0

\* cadd_bit: "the result is not allowed to overflow"
ScCaddPre(a, bit, flag) == bit \in 0..255 /\ flag \in {0, 1} /\ Lt(Add(a, IF flag = 1 THEN Pow2(bit) ELSE Zero), N)

\* specified observable result of a KScalar record  [op, a, b, k, f]
ScOut(i) ==
  LET A == ScOfBytes(i.a)  Bv == ScOfBytes(i.b)  k == i.k  f == i.f IN
  CASE i.op = "set_b32" -> [ ovf |-> ScBool(~Lt(FromBytesBE(i.a), N)), r |-> Sc32(A) ]
    [] i.op = "set_b32_seckey" -> [ ret |-> ScBool(Lt(FromBytesBE(i.a), N) /\ A # Zero) ]
    [] i.op = "set_u64" -> [ r |-> Sc32(FromBytesBE(SubSeq(i.a, 25, 32))) ]
    [] i.op = "set_int" -> [ r |-> Sc32(FromNat(k)) ]
    [] i.op = "add" -> [ ret |-> ScBool(~Lt(Add(A, Bv), N)), r |-> Sc32(SAdd(A, Bv)) ]
    [] i.op = "mul" -> [ r |-> Sc32(SMul(A, Bv)) ]
    [] i.op = "sqr" -> [ r |-> Sc32(SMul(A, A)) ]
    [] i.op = "negate" -> [ r |-> Sc32(SNeg(A)) ]
    [] i.op \in { "inverse", "inverse_var" } -> [ r |-> Sc32(SInv(A)) ]
    [] i.op = "half" -> [ r |-> Sc32(SMul(A, ScHalfInv)) ]
    [] i.op = "preds" -> [ is_zero |-> ScBool(A = Zero), is_one |-> ScBool(A = One), is_even |-> ScBool(~IsOdd(A)),
                           is_high |-> ScBool(IsHigh(A)), b32 |-> Sc32(A) ]
    [] i.op = "eq" -> [ ret |-> ScBool(A = Bv) ]
    [] i.op = "cond_negate" -> [ ret |-> IF f = 1 THEN -1 ELSE 1, r |-> Sc32(IF f = 1 THEN SNeg(A) ELSE A) ]
    [] i.op = "cadd_bit" -> IF ScCaddPre(A, k, f) THEN [ r |-> Sc32(Add(A, IF f = 1 THEN Pow2(k) ELSE Zero)) ] ELSE [ precondition_violated |-> 1 ]
    [] i.op = "cmov" -> [ r |-> Sc32(IF f = 1 THEN Bv ELSE A) ]
    [] i.op \in { "get_bits_var", "get_bits_limb32" } -> [ bits |-> ToBytesBE(Mod(Shr(A, f), Pow2(k)), 4) ]
    [] i.op = "split_128" -> [ r1 |-> Sc32(Mod(A, Pow2(128))), r2 |-> Sc32(Shr(A, 128)) ]
    [] i.op = "split_lambda" -> LET s == ScSplitLambda(A) IN [ r1 |-> Sc32(s[1]), r2 |-> Sc32(s[2]) ]
    [] i.op = "mul_shift_var" -> [ r |-> Sc32(ScMulShift(A, Bv, k)) ]

\* design-level theorems evaluated on every generated record
ScRecordSound(i, o) ==
  LET A == ScOfBytes(i.a) IN
  /\ (i.op = "split_lambda" => ScSplitPost(A, FromBytesBE(o.r1), FromBytesBE(o.r2)))
  /\ (i.op \in { "inverse", "inverse_var" } => IF A = Zero THEN FromBytesBE(o.r) = Zero ELSE SMul(FromBytesBE(o.r), A) = One)
  /\ (i.op = "half" => SAdd(FromBytesBE(o.r), FromBytesBE(o.r)) = A)
  /\ (i.op = "split_128" => Add(FromBytesBE(o.r1), Mul(FromBytesBE(o.r2), Pow2(128))) = A)
  /\ ("r" \in DOMAIN o => Lt(FromBytesBE(o.r), N))
=============================================================================
