------------------------------- MODULE PubkeyCodec -------------------------------
(***************************************************************************)
(* Public-key encodings as include/secp256k1.h, include/secp256k1_extrakeys.h *)
(* and SEC 1 2.3.3/2.3.4 (plus the X9.62 hybrid form) define them:         *)
(*   02/03 || x            33 bytes  compressed, prefix = 2 + parity of y  *)
(*   04 || x || y          65 bytes  uncompressed                          *)
(*   06/07 || x || y       65 bytes  hybrid, prefix = 6 + parity of y      *)
(*   x                     32 bytes  x-only (BIP-340), denotes the even-y point *)
(* A string is admitted iff it has one of these shapes, every coordinate is *)
(* a canonical field element (< P) and the point is on the curve.  Written  *)
(* as "there is a point of which this string is an encoding".               *)
(***************************************************************************)
EXTENDS Curve

PkOnCurve(x, y) == Lt(x, P) /\ Lt(y, P) /\ FSqr(y) = CurveRhs(x)
\* the (at most two) ordinates for an abscissa
PkYs(x) == IF ~Lt(x, P) THEN {} ELSE LET c == FSqrtCand(CurveRhs(x)) IN { y \in { c, FNeg(c) } : PkOnCurve(x, y) }
PkParity(y) == IF IsOdd(y) THEN 1 ELSE 0

PkEnc33(Q) == << 2 + PkParity(Q[2]) >> \o ToBytesBE(Q[1], 32)
PkEnc65(Q) == << 4 >> \o ToBytesBE(Q[1], 32) \o ToBytesBE(Q[2], 32)
PkEncHybrid(Q) == << 6 + PkParity(Q[2]) >> \o ToBytesBE(Q[1], 32) \o ToBytesBE(Q[2], 32)
PkEncX(Q) == ToBytesBE(Q[1], 32)

\* the points a string could denote: candidates come from the string itself
PkCandidates(b) ==
  IF Len(b) = 33 THEN LET x == FromBytesBE(SubSeq(b, 2, 33)) IN { << x, y >> : y \in PkYs(x) }
  ELSE IF Len(b) = 65 THEN LET x == FromBytesBE(SubSeq(b, 2, 33))  y == FromBytesBE(SubSeq(b, 34, 65))
                           IN IF PkOnCurve(x, y) THEN { << x, y >> } ELSE {}
  ELSE {}
PkDenotes(b, Q) == b = PkEnc33(Q) \/ b = PkEnc65(Q) \/ b = PkEncHybrid(Q)
PkPoints(b) == { Q \in PkCandidates(b) : PkDenotes(b, Q) }
\* secp256k1_ec_pubkey_parse: <<ok, Q>>
PkParse(b) == LET qs == PkPoints(b) IN IF qs = {} THEN << FALSE, Inf >> ELSE << TRUE, CHOOSE Q \in qs : TRUE >>

\* x-only: secp256k1_xonly_pubkey_parse
XoPoints(b) == IF Len(b) # 32 THEN {}
               ELSE LET x == FromBytesBE(b) IN { Q \in { << x, y >> : y \in PkYs(x) } : ~IsOdd(Q[2]) /\ b = PkEncX(Q) }
XoParse(b) == LET qs == XoPoints(b) IN IF qs = {} THEN << FALSE, Inf >> ELSE << TRUE, CHOOSE Q \in qs : TRUE >>

\* secp256k1_ec_pubkey_serialize with *outputlen = cap: <<ret, *outputlen, bytes, illegal-callback count>>.
\* A buffer shorter than the format needs violates the API contract (callback, 0).
PkSerialize(Q, compressed, cap) ==
  LET e == IF compressed THEN PkEnc33(Q) ELSE PkEnc65(Q) IN
  IF cap < Len(e) THEN << 0, cap, << >>, 1 >> ELSE << 1, Len(e), e, 0 >>
=============================================================================
