------------------------------- MODULE Borromean -------------------------------
(***************************************************************************)
(* Borromean ring signatures (Maxwell, Poelstra 2015) as used by the range *)
(* proof, surjection proof and whitelist modules: several rings sharing    *)
(* one challenge e0.  Chain of ring i:                                      *)
(*   e_{i,0} = H(e0 || m || i || 0)                                         *)
(*   R_{i,j} = s_{i,j} G + e_{i,j} P_{i,j},  e_{i,j+1} = H(R_{i,j} || m || i || j+1) *)
(*   accept iff  e0 = H(R_{0,last} || R_{1,last} || ... || m)               *)
(* Challenges that do not fit below N, zero challenges, zero s values and   *)
(* points at infinity make verification fail.                               *)
(* Rings are given flat: pubs/ss are sequences, rsizes the ring sizes.      *)
(***************************************************************************)
EXTENDS Curve, Hmac

BorHash(e, m, ridx, eidx) == Sha256Hash(e \o m \o BE32(ridx) \o BE32(eidx))

\* walk ring number i (0-based) whose keys/scalars start at offset off (0-based) in the flat
\* sequences; j counts keys done.  Returns <<ok, ser33 of the last R, challenges used>>
RECURSIVE RingWalk(_, _, _, _, _, _, _, _, _)
RingWalk(m, i, pubs, ss, off, size, j, ebytes, evs) ==
  IF j = size THEN << TRUE, ebytes, evs >>       \* ebytes holds ser33(R_last) here
  ELSE LET en == FromBytesBE(ebytes)
           s  == ss[off + j + 1]
           Pk == pubs[off + j + 1]
       IN  IF ~Lt(en, N) \/ IsZero(s) \/ IsZero(en) \/ IsInf(Pk) THEN << FALSE, << >>, evs >>
           ELSE LET R == PAdd(PMul(en, Pk), PMulG(s)) IN
                IF IsInf(R) THEN << FALSE, << >>, evs >>
                ELSE LET t == Ser33(R)
                         nxt == IF j + 1 < size THEN BorHash(t, m, i, j + 1) ELSE t
                     IN  RingWalk(m, i, pubs, ss, off, size, j + 1, nxt, Append(evs, en))

RECURSIVE BorVerifyFrom(_, _, _, _, _, _, _, _, _)
BorVerifyFrom(e0, ss, pubs, rsizes, m, i, off, acc, evs) ==
  IF i = Len(rsizes) THEN << Sha256Hash(acc \o m) = e0, evs >>
  ELSE LET w == RingWalk(m, i, pubs, ss, off, rsizes[i+1], 0, BorHash(e0, m, i, 0), evs)
       IN  IF ~w[1] THEN << FALSE, w[3] >>
           ELSE BorVerifyFrom(e0, ss, pubs, rsizes, m, i + 1, off + rsizes[i+1],
                              IF rsizes[i+1] = 0 THEN acc ELSE acc \o w[2], w[3])
\* <<accepted, challenge scalars in ring order (for rewind)>>
BorVerify(e0, ss, pubs, rsizes, m) == BorVerifyFrom(e0, ss, pubs, rsizes, m, 0, 0, << >>, << >>)

\* ---- signing -------------------------------------------------------------------------
\* forward part of ring i from the secret index: start with k_i G, walk the forged members after it
RECURSIVE SignFwd(_, _, _, _, _, _, _, _)
SignFwd(m, i, pubs, ss, off, size, j, t) ==      \* t = ser33 of current R; j = next member index (0-based)
  IF j >= size THEN << TRUE, t >>
  ELSE LET en == FromBytesBE(BorHash(t, m, i, j)) IN
       IF ~Lt(en, N) \/ IsZero(en) THEN << FALSE, << >> >>
       ELSE LET R == PAdd(PMul(en, pubs[off + j + 1]), PMulG(ss[off + j + 1])) IN
            IF IsInf(R) THEN << FALSE, << >> >> ELSE SignFwd(m, i, pubs, ss, off, size, j + 1, Ser33(R))

RECURSIVE SignE0(_, _, _, _, _, _, _, _, _)
SignE0(m, pubs, ss, ks, rsizes, secidx, i, off, acc) ==
  IF i = Len(rsizes) THEN << TRUE, Sha256Hash(acc \o m) >>
  ELSE LET R0 == PMulG(ks[i+1]) IN
       IF IsInf(R0) THEN << FALSE, << >> >>
       ELSE LET f == SignFwd(m, i, pubs, ss, off, rsizes[i+1], secidx[i+1] + 1, Ser33(R0)) IN
            IF ~f[1] THEN << FALSE, << >> >>
            ELSE SignE0(m, pubs, ss, ks, rsizes, secidx, i + 1, off + rsizes[i+1], acc \o f[2])

\* backward part: from e0 walk the forged members before the secret index, then close the ring
RECURSIVE SignBack(_, _, _, _, _, _, _, _)
SignBack(m, i, pubs, ss, off, secj, j, en) ==    \* en = challenge scalar for member j
  IF ~Lt(en, N) \/ IsZero(en) THEN << FALSE, Zero >>
  ELSE IF j = secj THEN << TRUE, en >>
  ELSE LET R == PAdd(PMul(en, pubs[off + j + 1]), PMulG(ss[off + j + 1])) IN
       IF IsInf(R) THEN << FALSE, Zero >>
       ELSE SignBack(m, i, pubs, ss, off, secj, j + 1, FromBytesBE(BorHash(Ser33(R), m, i, j + 1)))

RECURSIVE SignClose(_, _, _, _, _, _, _, _, _, _)
SignClose(e0, m, pubs, ss, ks, secs, rsizes, secidx, i, off) ==
  IF i = Len(rsizes) THEN << TRUE, ss >>
  ELSE LET b == SignBack(m, i, pubs, ss, off, secidx[i+1], 0, FromBytesBE(BorHash(e0, m, i, 0))) IN
       IF ~b[1] THEN << FALSE, ss >>
       ELSE LET sv == SAdd(SNeg(SMul(b[2], secs[i+1])), ks[i+1]) IN
            IF IsZero(sv) THEN << FALSE, ss >>
            ELSE SignClose(e0, m, pubs, [ss EXCEPT ![off + secidx[i+1] + 1] = sv], ks, secs, rsizes, secidx, i + 1, off + rsizes[i+1])

\* ss carries the pre-chosen (forged) scalars at all non-secret positions; ks/secs per ring;
\* secidx 0-based per ring.  Returns <<ok, e0, ss'>>
BorSign(pubs, ss, ks, secs, rsizes, secidx, m) ==
  LET a == SignE0(m, pubs, ss, ks, rsizes, secidx, 0, 0, << >>) IN
  IF ~a[1] THEN << FALSE, << >>, ss >>
  ELSE LET c == SignClose(a[2], m, pubs, ss, ks, secs, rsizes, secidx, 0, 0)
       IN  << c[1], a[2], c[2] >>
=============================================================================
