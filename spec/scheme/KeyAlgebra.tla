------------------------------- MODULE KeyAlgebra -------------------------------
(***************************************************************************)
(* The key-derivation algebra of include/secp256k1.h and                   *)
(* include/secp256k1_extrakeys.h (and BIP-341 for the Taproot tweak):      *)
(* every operation exists on the secret side (scalars mod N) and on the    *)
(* public side (curve points), each with its documented failure cases.     *)
(* The two sides are defined INDEPENDENTLY here; that they commute         *)
(* (pk = sk*G is preserved, and both sides fail together) is the theorem   *)
(* the API machine checks in every state.  A result is <<ok, value>>.      *)
(***************************************************************************)
EXTENDS Curve

KaFail == << FALSE, << >> >>
KaOk(v) == << TRUE, v >>
\* a 32-byte tweak is admissible iff it encodes a scalar below N
KaTweakOk(t32) == Lt(FromBytesBE(t32), N)
KaT(t32) == FromBytesBE(t32)

\* ---- secret side: d is a valid secret scalar (1 <= d < N)
KaSecNegate(d) == KaOk(SNeg(d))
KaSecTweakAdd(d, t32) ==
  IF ~KaTweakOk(t32) THEN KaFail
  ELSE LET r == SAdd(d, KaT(t32)) IN IF IsZero(r) THEN KaFail ELSE KaOk(r)        \* fails iff t = -d
KaSecTweakMul(d, t32) ==
  IF ~KaTweakOk(t32) \/ IsZero(KaT(t32)) THEN KaFail ELSE KaOk(SMul(d, KaT(t32)))

\* ---- public side: Q is a point other than infinity
KaPubNegate(Q) == KaOk(PNeg(Q))
KaPubTweakAdd(Q, t32) ==
  IF ~KaTweakOk(t32) THEN KaFail
  ELSE LET R == PAdd(Q, PMulG(KaT(t32))) IN IF IsInf(R) THEN KaFail ELSE KaOk(R)   \* fails iff t*G = -Q
KaPubTweakMul(Q, t32) ==
  IF ~KaTweakOk(t32) \/ IsZero(KaT(t32)) THEN KaFail ELSE KaOk(PMul(KaT(t32), Q))
\* secp256k1_ec_pubkey_combine: the sum, unless it is the point at infinity
KaCombine(qs) == LET S == SumPoints(qs) IN IF IsInf(S) THEN KaFail ELSE KaOk(S)

\* ---- x-only keys (BIP-340): the point with the same x and even y; parity of the original y
KaParity(Q) == IF FIsOdd(Q[2]) THEN 1 ELSE 0
KaEven(Q) == IF FIsOdd(Q[2]) THEN PNeg(Q) ELSE Q
\* the secret key of the x-only key of d*G
KaSecEven(d) == IF FIsOdd(PMulG(d)[2]) THEN SNeg(d) ELSE d
\* secp256k1_xonly_pubkey_tweak_add (BIP-341 taproot output key): lift_x(x(Q)) + t*G
KaXonlyTweakAdd(Q, t32) == KaPubTweakAdd(KaEven(Q), t32)
\* secp256k1_keypair_xonly_tweak_add on the keypair of d: the secret key of the tweaked x-only key
KaKeypairTweakAdd(d, t32) == KaSecTweakAdd(KaSecEven(d), t32)
\* secp256k1_xonly_pubkey_tweak_add_check: accepts exactly the (x, parity) the tweak produces
KaTweakAddCheckR(ox32, par, r) == r[1] /\ X32(r[2]) = ox32 /\ KaParity(r[2]) = par      \* r = the result of the tweak
KaTweakAddCheck(ox32, par, Q, t32) == KaTweakAddCheckR(ox32, par, KaXonlyTweakAdd(Q, t32))

\* ---- order of public keys: lexicographic order of the 33-byte compressed encodings (-1, 0, 1)
KaCmp(Qa, Qb) == LexCmp(Ser33(Qa), Ser33(Qb)) - 1
KaLeq(a, b) == LexCmp(a, b) # 2
\* sorting byte strings: the specification is the post-condition; KaSort is one way to meet it
KaIsSorted(s) == \A j \in 1..(Len(s) - 1) : KaLeq(s[j], s[j + 1])
KaCountIn(s, v) == LET RECURSIVE Cnt(_) Cnt(j) == IF j = 0 THEN 0 ELSE Cnt(j - 1) + (IF s[j] = v THEN 1 ELSE 0) IN Cnt(Len(s))
KaIsPermutation(s, t) == Len(s) = Len(t) /\ \A j \in 1..Len(s) : KaCountIn(s, s[j]) = KaCountIn(t, s[j])
KaSortedPermutation(in, out) == KaIsSorted(out) /\ KaIsPermutation(in, out)
RECURSIVE KaMerge(_, _)
KaMerge(a, b) == IF Len(a) = 0 THEN b ELSE IF Len(b) = 0 THEN a
                 ELSE IF KaLeq(Head(a), Head(b)) THEN << Head(a) >> \o KaMerge(Tail(a), b)
                 ELSE << Head(b) >> \o KaMerge(a, Tail(b))
RECURSIVE KaSort(_)
KaSort(s) == IF Len(s) <= 1 THEN s
             ELSE LET h == Len(s) \div 2 IN KaMerge(KaSort(SubSeq(s, 1, h)), KaSort(SubSeq(s, h + 1, Len(s))))
=============================================================================
