------------------------------- MODULE BpppNorm -------------------------------
(***************************************************************************)
(* The Bulletproofs++ weighted norm argument (Eagen, Kanjalkar, Ruffing,   *)
(* Nick: "Bulletproofs++", section 4) as the library instantiates it, on   *)
(* the Curve instance.                                                     *)
(*                                                                         *)
(* Statement: generators G_1..G_g, H_1..H_h (g, h powers of two), public   *)
(* scalars c_1..c_h, a challenge base rho # 0 with mu = rho^2, a point C.  *)
(* Witness: n (length g), l (length h) with                                *)
(*      C = v*G + <n, G_vec> + <l, H_vec>,   v = |n|^2_mu + <l, c>,        *)
(*      |n|^2_mu = SUM_i mu^i * n_i^2   (i = 1..g).                        *)
(* Generator points are INPUTS of this module (sequences of points); their *)
(* derivation from the seed is another module's business.                  *)
(*                                                                         *)
(* Sections: sizes; scalar-vector algebra; the two codecs (two points in   *)
(* 65 bytes; generator lists); Fiat-Shamir transcript; commitment; the     *)
(* verifier (a) as the one-shot final equation and (b) as the round-by-    *)
(* round reduction of the paper (used to cross-check (a) at design level); *)
(* the prover rounds (a transcription of the reference prover's choices,   *)
(* needed because proofs are deterministic and the property demands the    *)
(* exact bytes); the verifier's scratch-space need.                        *)
(* Vectors are 1-based sequences; "even"/"odd" below refer to the paper's  *)
(* and the C code's 0-based positions.                                     *)
(***************************************************************************)
EXTENDS Curve, Hmac, Tags

\* TLC evaluates [i \in 1..k |-> e] lazily and re-evaluates e at every application; concatenation with the
\* empty sequence yields the same sequence as an evaluated tuple (semantically the identity)
BpTup(f) == f \o << >>

-----------------------------------------------------------------------------
\* sizes
RECURSIVE BpLog2(_)
BpLog2(k) == IF k <= 1 THEN 0 ELSE 1 + BpLog2(k \div 2)          \* floor(log2 k) for k >= 1
BpIsPow2(k) == k >= 1 /\ 2^BpLog2(k) = k
BpMax(a, b) == IF a >= b THEN a ELSE b
BpRounds(g, h) == BpMax(BpLog2(g), BpLog2(h))
BpProofLen(g, h) == 65 * BpRounds(g, h) + 64
\* the number of halving rounds a prover performs until both vectors have length 1
RECURSIVE BpHalvings(_, _)
BpHalvings(g, h) == IF g <= 1 /\ h <= 1 THEN 0 ELSE 1 + BpHalvings(BpMax(g \div 2, 1), BpMax(h \div 2, 1))

-----------------------------------------------------------------------------
\* scalar vectors (entries reduced mod N)
RECURSIVE BpSumS(_)
BpSumS(s) == IF Len(s) = 0 THEN Zero ELSE SAdd(Head(s), BpSumS(Tail(s)))
BpInner(a, b) == BpSumS([i \in 1..Len(a) |-> SMul(a[i], b[i])])
\* weighted inner product  SUM_i a_i b_i mu^i
BpWInner(a, b, mu) == BpSumS([i \in 1..Len(a) |-> SMul(SMul(a[i], b[i]), ModPow(mu, FromNat(i), N))])
BpEven(v) == BpTup([i \in 1..(Len(v) \div 2) |-> v[2*i - 1]])           \* 0-based positions 0, 2, 4 ...
BpOdd(v)  == BpTup([i \in 1..(Len(v) \div 2) |-> v[2*i]])             \* 0-based positions 1, 3, 5 ...
BpVec(bytes) == BpTup([i \in 1..(Len(bytes) \div 32) |-> Mod(FromBytesBE(SubSeq(bytes, 32*(i-1) + 1, 32*i)), N)])
BpVecBytes(v) == Flatten([i \in 1..Len(v) |-> Scalar32(v[i])])
\* rho^(2^k)
BpRhoPow(rho, k) == ModPow(rho, Pow2(k), N)

\* multi-exponentiation
BpMulti(ss, ps) == SumPoints([i \in 1..Len(ss) |-> PMul(ss[i], ps[i])])

-----------------------------------------------------------------------------
\* codec 1: two points X, R in 65 bytes -- byte 1 = 2*odd(X.y) + odd(R.y), then X.x, R.x; the point at
\* infinity is x = 0 with sign bit 0
BpSign(Q) == IF IsInf(Q) THEN 0 ELSE IF FIsOdd(Q[2]) THEN 1 ELSE 0
BpX32(Q) == IF IsInf(Q) THEN Zeros(32) ELSE X32(Q)
BpSerTwo(X, R) == << 2 * BpSign(X) + BpSign(R) >> \o BpX32(X) \o BpX32(R)
\* idx = 0: X, idx = 1: R;  <<ok, point>>
BpParseOne(b65, idx) ==
  LET xb   == SubSeq(b65, 2 + 32*idx, 33 + 32*idx)
      sign == IF idx = 0 THEN (b65[1] \div 2) % 2 ELSE b65[1] % 2
  IN  IF b65[1] > 3 THEN << FALSE, Inf >>
      ELSE IF AllZero(xb) THEN << sign = 0, Inf >>
      ELSE LiftXOdd(FromBytesBE(xb), sign = 1)

\* codec 2: generator lists, 33 bytes per point: 10 = "y is a square", 11 = "y is not a square", then x
BpGenParse(b33) ==
  IF b33[1] \notin {10, 11} THEN << FALSE, Inf >>
  ELSE LET l == LiftXQuad(FromBytesBE(SubSeq(b33, 2, 33)))
       IN  IF ~l[1] THEN l ELSE << TRUE, IF b33[1] = 11 THEN PNeg(l[2]) ELSE l[2] >>
BpGenSer(Q) == << IF IsSquare(Q[2]) THEN 10 ELSE 11 >> \o X32(Q)
\* <<ok, sequence of points>>; rejects lengths that are not a multiple of 33 and any malformed point
BpGensParse(bytes) ==
  IF Len(bytes) % 33 # 0 THEN << FALSE, << >> >>
  ELSE LET k  == Len(bytes) \div 33
           ps == BpTup([i \in 1..k |-> BpGenParse(SubSeq(bytes, 33*(i-1) + 1, 33*i))])
       IN  IF \A i \in 1..k : ps[i][1] THEN << TRUE, BpTup([i \in 1..k |-> ps[i][2]]) >> ELSE << FALSE, << >> >>
BpGensSer(points) == Flatten([i \in 1..Len(points) |-> BpGenSer(points[i])])
BpIsPrefix(a, b) == Len(a) <= Len(b) /\ SubSeq(b, 1, Len(a)) = a

-----------------------------------------------------------------------------
\* Fiat-Shamir: the transcript is a SHA-256 state, modelled as the byte string hashed so far.  It starts
\* as the BIP-340 style tagged hash prefix of "Bulletproofs_pp/v0/commitment" followed by the parent
\* protocol's bytes; every round appends the 65 proof bytes of the round; the challenge is the hash of the
\* transcript followed by the 64-bit little-endian index 0, reduced mod N.
BpLE64(k) == << k % 256, (k \div 256) % 256, (k \div 65536) % 256, (k \div 16777216) % 256, 0, 0, 0, 0 >>
BpTranscript(pre) == LET t == Sha256Hash(TagBpppGenerator) IN t \o t \o pre
BpChallenge(T) == Mod(FromBytesBE(Sha256Hash(T \o BpLE64(0))), N)
\* the stand-alone use of the argument (src/modules/bppp/tests_impl.h): commit to all public data first
BpStandalonePre(C, rho, gens, glen, c) ==
  Ser33(C) \o Scalar32(rho) \o BpLE64(glen) \o BpLE64(Len(gens))
  \o Flatten([i \in 1..Len(gens) |-> Ser33(gens[i])]) \o BpLE64(Len(c)) \o BpVecBytes(c)

-----------------------------------------------------------------------------
\* commitment
BpNormV(n, l, c, mu) == SAdd(BpWInner(n, n, mu), BpInner(l, c))
BpCommit(Gs, Hs, n, l, c, mu) ==
  PAdd(PMulG(BpNormV(n, l, c, mu)), PAdd(BpMulti(n, Gs), BpMulti(l, Hs)))

-----------------------------------------------------------------------------
\* verifier (a): the final equation.  gens = G_vec \o H_vec (points), glen = |G_vec|, c = public vector,
\* proof = r blocks of 65 bytes (X_i, R_i) then n, l (32 bytes each), r = max(log2 g, log2 h).
\*   gamma_i  = challenge after absorbing blocks 1..i
\*   s_g[j]   = n * PROD_{k < log2 g} (bit k of j set ? gamma_{k+1} : rho^(2^k))          j = 0..g-1
\*   s_h[j]   = l * PROD_{k < log2 h, bit k of j set} gamma_{k+1}                          j = 0..h-1
\*   v        = n^2 * rho^(2^(log2 g + 1)) + <c, s_h>
\*   accept iff  C + SUM_i gamma_i X_i + (gamma_i^2 - 1) R_i  =  v*G + <s_g, G_vec> + <s_h, H_vec>
BpBitSet(j, k) == (j \div 2^k) % 2 = 1
RECURSIVE BpProdS(_)
BpProdS(s) == IF Len(s) = 0 THEN One ELSE SMul(Head(s), BpProdS(Tail(s)))
BpVerify(T0, proof, rho, gens, glen, c, C) ==
  LET hlen == Len(c)  r == BpRounds(glen, hlen) IN
  /\ glen > 0 /\ hlen > 0
  /\ Len(gens) = glen + hlen
  /\ Len(proof) = 65 * r + 64
  /\ BpIsPow2(glen) /\ BpIsPow2(hlen)
  /\ LET nn == FromBytesBE(SubSeq(proof, 65*r + 1, 65*r + 32))
         ll == FromBytesBE(SubSeq(proof, 65*r + 33, 65*r + 64))
     IN  /\ Lt(nn, N) /\ Lt(ll, N)
         /\ ~IsZero(rho)
         /\ LET blk == BpTup([i \in 1..r |-> SubSeq(proof, 65*(i-1) + 1, 65*i)])
                Xs  == BpTup([i \in 1..r |-> BpParseOne(blk[i], 0)])
                Rs  == BpTup([i \in 1..r |-> BpParseOne(blk[i], 1)])
            IN  /\ \A i \in 1..r : Xs[i][1] /\ Rs[i][1]
                /\ LET gam == BpTup([i \in 1..r |-> BpChallenge(T0 \o SubSeq(proof, 1, 65*i))])
                       lg  == BpLog2(glen)  lh == BpLog2(hlen)
                       rp  == BpTup([k \in 1..lg |-> BpRhoPow(rho, k-1)])
                       sg  == BpTup([j \in 1..glen |-> SMul(nn, BpProdS([k \in 1..lg |->
                                  IF BpBitSet(j-1, k-1) THEN gam[k] ELSE rp[k]]))])
                       sh  == BpTup([j \in 1..hlen |-> SMul(ll, BpProdS([k \in 1..lh |->
                                  IF BpBitSet(j-1, k-1) THEN gam[k] ELSE One]))])
                       v   == SAdd(SMul(SMul(nn, nn), BpRhoPow(rho, lg + 1)), BpInner(c, sh))
                       lhs == PAdd(C, SumPoints([i \in 1..r |->
                                  PAdd(PMul(gam[i], Xs[i][2]), PMul(SSub(SMul(gam[i], gam[i]), One), Rs[i][2]))]))
                       rhs == PAdd(PMulG(v), PAdd(BpMulti(sg, SubSeq(gens, 1, glen)),
                                                   BpMulti(sh, SubSeq(gens, glen + 1, glen + hlen))))
                   IN  lhs = rhs

\* verifier (b): the reduction of the paper, one round at a time.  A round with challenge gamma maps
\*   C' = C + gamma*X + (gamma^2 - 1)*R,
\*   G' = rho*G_even + gamma*G_odd,  rho' = rho^2            (only while |G_vec| > 1)
\*   H' = H_even + gamma*H_odd,  c' = c_even + gamma*c_odd   (only while |H_vec| > 1)
\* and at length (1,1) the relation is checked directly with mu = rho'^2.
RECURSIVE BpVerifyFold(_, _, _, _, _, _, _)
BpVerifyFold(T, rhof, Gs, Hs, c, C, rest) ==
  IF Len(Gs) = 1 /\ Len(Hs) = 1
  THEN LET nn == FromBytesBE(SubSeq(rest, 1, 32))  ll == FromBytesBE(SubSeq(rest, 33, 64)) IN
       /\ Len(rest) = 64 /\ Lt(nn, N) /\ Lt(ll, N)
       /\ C = BpCommit(Gs, Hs, << nn >>, << ll >>, c, SMul(rhof, rhof))
  ELSE /\ Len(rest) >= 65
       /\ LET blk == SubSeq(rest, 1, 65)  X == BpParseOne(blk, 0)  R == BpParseOne(blk, 1) IN
          /\ X[1] /\ R[1]
          /\ LET T1 == T \o blk
                 gm == BpChallenge(T1)
                 C1 == PAdd(C, PAdd(PMul(gm, X[2]), PMul(SSub(SMul(gm, gm), One), R[2])))
                 fg == Len(Gs) > 1   fh == Len(Hs) > 1
                 G1 == IF fg THEN BpTup([i \in 1..(Len(Gs) \div 2) |-> PAdd(PMul(rhof, Gs[2*i-1]), PMul(gm, Gs[2*i]))]) ELSE Gs
                 H1 == IF fh THEN BpTup([i \in 1..(Len(Hs) \div 2) |-> PAdd(Hs[2*i-1], PMul(gm, Hs[2*i]))]) ELSE Hs
                 c1 == IF fh THEN BpTup([i \in 1..(Len(c) \div 2) |-> SAdd(c[2*i-1], SMul(gm, c[2*i]))]) ELSE c
             IN  BpVerifyFold(T1, IF fg THEN SMul(rhof, rhof) ELSE rhof, G1, H1, c1, C1, SubSeq(rest, 66, Len(rest)))
BpVerifyByFolding(T0, proof, rho, gens, glen, c, C) ==
  /\ glen > 0 /\ Len(c) > 0 /\ Len(gens) = glen + Len(c) /\ BpIsPow2(glen) /\ BpIsPow2(Len(c)) /\ ~IsZero(rho)
  /\ BpVerifyFold(T0, rho, SubSeq(gens, 1, glen), SubSeq(gens, glen + 1, Len(gens)), c, C, proof)

-----------------------------------------------------------------------------
\* prover: the rounds of the reference prover (transcribed).  State: transcript T, rho_f, mu_f, the folded
\* generators and vectors, the proof bytes so far.  Per round
\*   x_v = 2*rho_f^-1 * SUM_i n_even[i] n_odd[i] (mu_f^2)^i + <c_even, l_odd> + <c_odd, l_even>
\*   X   = x_v*G + SUM_i (rho_f*n_odd[i])*G_even[i] + (rho_f^-1*n_even[i])*G_odd[i]   (if |n| >= 2)
\*               + SUM_i l_odd[i]*H_even[i] + l_even[i]*H_odd[i]                       (if |l| >= 2)
\*   r_v = SUM_i n_odd[i]^2 (mu_f^2)^i + <c_odd, l_odd>
\*   R   = r_v*G + <n_odd, G_odd> + <l_odd, H_odd>
\*   gamma = challenge after absorbing ser(X, R)
\*   n' = rho_f^-1*n_even + gamma*n_odd,  G' = rho_f*G_even + gamma*G_odd
\*   l' = l_even + gamma*l_odd,  c' = c_even + gamma*c_odd,  H' = H_even + gamma*H_odd
\*   rho_f' = mu_f,  mu_f' = mu_f^2     (in every round, also when only the H side is still folding)
RECURSIVE BpProveRounds(_, _, _, _, _, _, _, _, _)
BpProveRounds(T, rhof, muf, Gs, Hs, n, l, c, acc) ==
  IF Len(Gs) <= 1 /\ Len(Hs) <= 1 THEN acc \o Scalar32(n[1]) \o Scalar32(l[1])
  ELSE LET fg == Len(Gs) > 1   fh == Len(Hs) > 1
           rinv == SInv(rhof)  musq == SMul(muf, muf)
           ne == BpEven(n)  no == BpOdd(n)  Ge == BpEven(Gs)  Go == BpOdd(Gs)
           le == BpEven(l)  lo == BpOdd(l)  He == BpEven(Hs)  Ho == BpOdd(Hs)
           ce == BpEven(c)  co == BpOdd(c)
           wip == IF fg THEN BpWInner(ne, no, musq) ELSE Zero
           xv == SAdd(SAdd(SMul(Two, SMul(wip, rinv)), IF fh THEN BpInner(ce, lo) ELSE Zero), IF fh THEN BpInner(co, le) ELSE Zero)
           Xg == IF fg THEN PAdd(BpMulti([i \in 1..Len(no) |-> SMul(no[i], rhof)], Ge),
                                 BpMulti([i \in 1..Len(ne) |-> SMul(ne[i], rinv)], Go)) ELSE Inf
           Xh == IF fh THEN PAdd(BpMulti(lo, He), BpMulti(le, Ho)) ELSE Inf
           X  == PAdd(PMulG(xv), PAdd(Xg, Xh))
           rv == SAdd(IF fg THEN BpWInner(no, no, musq) ELSE Zero, IF fh THEN BpInner(co, lo) ELSE Zero)
           R  == PAdd(PMulG(rv), PAdd(IF fg THEN BpMulti(no, Go) ELSE Inf, IF fh THEN BpMulti(lo, Ho) ELSE Inf))
           blk == BpSerTwo(X, R)
           T1 == T \o blk
           gm == BpChallenge(T1)
           n1 == IF fg THEN BpTup([i \in 1..Len(ne) |-> SAdd(SMul(ne[i], rinv), SMul(no[i], gm))]) ELSE n
           G1 == IF fg THEN BpTup([i \in 1..Len(Ge) |-> PAdd(PMul(rhof, Ge[i]), PMul(gm, Go[i]))]) ELSE Gs
           l1 == IF fh THEN BpTup([i \in 1..Len(le) |-> SAdd(le[i], SMul(gm, lo[i]))]) ELSE l
           c1 == IF fh THEN BpTup([i \in 1..Len(ce) |-> SAdd(ce[i], SMul(gm, co[i]))]) ELSE c
           H1 == IF fh THEN BpTup([i \in 1..Len(He) |-> PAdd(He[i], PMul(gm, Ho[i]))]) ELSE Hs
       IN  BpProveRounds(T1, muf, musq, G1, H1, n1, l1, c1, acc \o blk)
\* gens = G_vec \o H_vec with |G_vec| = |n|, |H_vec| = |l| = |c|, all powers of two
BpProve(T0, rho, gens, n, l, c) ==
  BpProveRounds(T0, rho, SMul(rho, rho), SubSeq(gens, 1, Len(n)), SubSeq(gens, Len(n) + 1, Len(n) + Len(l)), n, l, c, << >>)

-----------------------------------------------------------------------------
\* the verifier keeps four scalar arrays (challenges, s_g, s_h, powers of rho^-1) in the caller's scratch
\* space, 32 bytes per scalar; with less space it must fail closed
BpScratchNeed(g, h) == 32 * (BpRounds(g, h) + g + h + BpLog2(g))
=============================================================================
