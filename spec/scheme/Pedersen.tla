------------------------------- MODULE Pedersen -------------------------------
(***************************************************************************)
(* Pedersen commitments and alternative generators of the secp256k1-zkp    *)
(* "generator" module, written from include/secp256k1_generator.h, the     *)
(* derivation comment of secp256k1_generator_h and the map formulae of     *)
(* sage/shallue_van_de_woestijne.sage.  Points are Curve points (<<x, y>>  *)
(* or Inf); 64-bit values are BigNat numbers below 2^64 (8-byte big-endian *)
(* arrays in call records: use FromBytesBE / PedU64Bytes).                 *)
(*                                                                         *)
(* Operators other modules (range proofs, surjection proofs) may use:      *)
(*   PedSerQuad(base, Q), PedParseQuad(base, b33)  the "quadratic-residue  *)
(*        y" point codec: byte 1 = base if y is a square mod P, base+1     *)
(*        otherwise; bytes 2..33 = x (big-endian, must be < P, on curve).  *)
(*        Parsers return <<ok, Q>>.                                        *)
(*   PedSerCommit(Q), PedParseCommit(b33)   commitments, base 8  (8 / 9)   *)
(*   GenSer(Q), GenParse(b33)               generators,  base 10 (10 / 11) *)
(*   PedGenH                                 the standard generator h      *)
(*   PedSvdw(t)                              Shallue-van de Woestijne map  *)
(*   PedGenerate(seed32) = <<ok, Q>>         secp256k1_generator_generate  *)
(*   PedGenerateBlinded(seed32, blind32)     ... _generate_blinded         *)
(*   PedCommitPoint(b, v, H)                 b*G + v*H  (b, v BigNat)      *)
(*   PedCommit(blind32, v, H) = <<ok, C>>    secp256k1_pedersen_commit     *)
(*   PedTally(pos, neg)                      over sequences of points      *)
(*   PedBlindSum(blinds32, npos) = <<ok, s>> secp256k1_pedersen_blind_sum  *)
(*   PedBlindGenBlindSum(vals, gblinds32, blinds32, nin) = <<ok, last>>    *)
(*   PedU64(b8), PedU64Bytes(v)              uint64 <-> 8-byte big-endian  *)
(***************************************************************************)
EXTENDS Curve, Sha256, Tags

PedU64(b8) == FromBytesBE(b8)
PedU64Bytes(v) == ToBytesBE(v, 8)
PedIsU64(v) == Lt(v, Pow2(64))

-----------------------------------------------------------------------------
\* Encodings.  A point with y = 0 does not exist on secp256k1 (odd prime order).
PedQuadBit(Q) == IF IsSquare(Q[2]) THEN 0 ELSE 1
PedSerQuad(base, Q) == << base + PedQuadBit(Q) >> \o X32(Q)
PedParseQuad(base, b) ==
  IF Len(b) # 33 \/ (b[1] # base /\ b[1] # base + 1) THEN << FALSE, Inf >>
  ELSE LET l == LiftXQuad(FromBytesBE(SubSeq(b, 2, 33)))
       IN  IF ~l[1] THEN << FALSE, Inf >>
           ELSE << TRUE, IF b[1] = base + 1 THEN PNeg(l[2]) ELSE l[2] >>

PedSerCommit(Q)   == PedSerQuad(8, Q)
PedParseCommit(b) == PedParseQuad(8, b)
GenSer(Q)         == PedSerQuad(10, Q)
GenParse(b)       == PedParseQuad(10, b)

-----------------------------------------------------------------------------
\* The standard generator h ("maintained for historical reasons"): x = SHA-256 of the uncompressed
\* encoding of G, lifted to the curve (sage lift_x); the stored point is the one with even y.
PedGenH == LiftX(FromBytesBE(Sha256Hash(Ser65(G))))[2]

-----------------------------------------------------------------------------
\* Shallue-van de Woestijne map (Fouque-Tibouchi form), sage/shallue_van_de_woestijne.sage:
\*   w = c*t/(1+B+t^2),  x1 = (c-1)/2 - t*w,  x2 = -1 - x1,  x3 = 1 + 1/w^2   (1/0 := 0)
\* take the first x_i with x_i^3 + B a square; y = its square root, sign fixed by the parity of t.
\* c is the square root of -3 that is itself a square; "sqrt" is the root that is a square
\* (FSqrtCand), negated for odd t -- so that -t maps to the negated point.
SvdwC == FSqrtCand(FNeg(Three))
SvdwD == FMul(FSub(SvdwC, One), FInv(Two))
PedSvdw(t) ==
  LET w  == FMul(FMul(SvdwC, t), FInv(FAdd(FAdd(One, B), FSqr(t))))
      x1 == FSub(SvdwD, FMul(t, w))
      x2 == FNeg(FAdd(x1, One))
      x3 == FAdd(One, FInv(FSqr(w)))
      x  == IF IsSquare(CurveRhs(x1)) THEN x1 ELSE IF IsSquare(CurveRhs(x2)) THEN x2 ELSE x3
      y  == FSqrtCand(CurveRhs(x))
  IN  << x, IF IsOdd(t) THEN FNeg(y) ELSE y >>

\* generator from a seed: the sum of the images of two hashes of the seed.  The seed is
\* "not acceptable" when a hash is not a field element or the sum is the point at infinity.
PedGenHash(tag, seed32) == FromBytesBE(Sha256Hash(tag \o seed32))
PedGenerate(seed32) ==
  LET t1 == PedGenHash(TagGenerator1st, seed32)
      t2 == PedGenHash(TagGenerator2nd, seed32)
  IN  IF ~Lt(t1, P) \/ ~Lt(t2, P) THEN << FALSE, Inf >>
      ELSE LET Q == PAdd(PedSvdw(t1), PedSvdw(t2)) IN << ~IsInf(Q), Q >>
\* blinded derivation = unblinded derivation + blind*G; fails also for blind >= N
PedGenerateBlinded(seed32, blind32) ==
  LET g == PedGenerate(seed32)  r == FromBytesBE(blind32)
  IN  IF ~g[1] \/ ~Lt(r, N) THEN << FALSE, Inf >>
      ELSE LET Q == PAdd(g[2], PMulG(r)) IN << ~IsInf(Q), Q >>

-----------------------------------------------------------------------------
\* commitment to value v (BigNat < 2^64) with blinding factor b under generator H
PedCommitPoint(b, v, H) == PAdd(PMulG(b), PMul(v, H))
PedCommit(blind32, v, H) ==
  LET b == FromBytesBE(blind32)
  IN  IF ~Lt(b, N) THEN << FALSE, Inf >>
      ELSE LET C == PedCommitPoint(b, v, H) IN << ~IsInf(C), C >>

\* sum(pos) - sum(neg) = infinity
PedTally(pos, neg) == IsInf(PSub(SumPoints(pos), SumPoints(neg)))

RECURSIVE PedScalarSum(_)
PedScalarSum(ss) == IF Len(ss) = 0 THEN Zero ELSE SAdd(Head(ss), PedScalarSum(Tail(ss)))
PedAllBelowN(bs) == \A i \in 1..Len(bs) : Lt(FromBytesBE(bs[i]), N)

\* blinds: sequence of 32-byte strings; the first npos count positive, the rest negative
PedBlindSum(blinds, npos) ==
  IF ~PedAllBelowN(blinds) THEN << FALSE, Zero >>
  ELSE LET s == [i \in 1..Len(blinds) |-> FromBytesBE(blinds[i])]
       IN  << TRUE, SSub(PedScalarSum(SubSeq(s, 1, npos)), PedScalarSum(SubSeq(s, npos + 1, Len(s)))) >>

\* vals: BigNat values; gblinds (r), blinds (r'): 32-byte strings; the first nin entries are inputs.
\* Commitment i is v*(A + r*G) + r'*G = v*A + (v*r + r')*G.  The new last blinding factor makes
\* sum_outputs(v*r + r') - sum_inputs(v*r + r') = 0.  Needs Len(vals) > nin.
PedBlindGenBlindSum(vals, gblinds, blinds, nin) ==
  IF ~PedAllBelowN(gblinds) \/ ~PedAllBelowN(blinds) THEN << FALSE, Zero >>
  ELSE LET n == Len(vals)
           term == [i \in 1..n |-> SAdd(SMul(Mod(vals[i], N), FromBytesBE(gblinds[i])), FromBytesBE(blinds[i]))]
           total == SSub(PedScalarSum(SubSeq(term, nin + 1, n)), PedScalarSum(SubSeq(term, 1, nin)))
       IN  << TRUE, SSub(FromBytesBE(blinds[n]), total) >>
=============================================================================
