------------------------------- MODULE U64 -------------------------------
(***************************************************************************)
(* 64-bit unsigned machine arithmetic on BigNat values (TLC integers are   *)
(* 32-bit).  A uint64 is a BigNat below 2^64; records carry it as 8        *)
(* big-endian bytes.  Wrapping operators reduce modulo 2^64 exactly as C   *)
(* unsigned arithmetic does; the *Ovf predicates say when the exact result *)
(* does not fit, so a specification can state "no wrap happened".          *)
(***************************************************************************)
EXTENDS BigNat

U64Two64  == Pow2(64)
U64Max    == Sub(U64Two64, One)            \* UINT64_MAX
I64Max    == Sub(Pow2(63), One)            \* INT64_MAX
U64Ten    == << 10 >>
U64Four   == << 4 >>
IsU64(x)  == Lt(x, U64Two64)

U64From8(b) == FromBytesBE(b)
U64To8(x)   == ToBytesBE(x, 8)

U64Wrap(x)    == Mod(x, U64Two64)
U64Add(a, b)  == U64Wrap(Add(a, b))
U64Sub(a, b)  == IF Leq(b, a) THEN Sub(a, b) ELSE Sub(Add(a, U64Two64), b)
U64Mul(a, b)  == U64Wrap(Mul(a, b))
U64AddOvf(a, b) == ~IsU64(Add(a, b))
U64MulOvf(a, b) == ~IsU64(Mul(a, b))
U64Div10(a)   == Div(a, U64Ten)
U64MaxDiv10   == Div(U64Max, U64Ten)       \* UINT64_MAX / 10
U64ShrK(a, k) == Shr(a, k)                 \* 0 <= k <= 63 in C; k = 64 is undefined there
U64ShlK(a, k) == U64Wrap(Mul(a, Pow2(k)))
\* count of leading zero bits; defined for x # 0 (secp256k1_clz64_var requires that)
U64Clz(x)     == 64 - BitLen(x)
\* number of bits needed to write x (0 for x = 0)
U64Bits(x)    == BitLen(x)
\* low mask of k bits, 1 <= k <= 64:  UINT64_MAX >> (64 - k)
U64LowMask(k) == Sub(Pow2(k), One)
\* two-bit digit number i (0-based) of x:  (x >> 2i) & 3
U64Digit4(x, i) == ToNat(Mod(Shr(x, 2 * i), U64Four))

RECURSIVE U64Pow10(_)
U64Pow10(e) == IF e <= 0 THEN One ELSE Mul(U64Ten, U64Pow10(e - 1))     \* exact (not wrapped)
=============================================================================
