------------------------------- MODULE S2C -------------------------------
(***************************************************************************)
(* Sign-to-contract for ECDSA and the ECDSA anti-exfil protocol, from the  *)
(* public header include/secp256k1_ecdsa_s2c.h.                            *)
(*                                                                         *)
(*   original nonce   k  = first valid RFC 6979 nonce for (key, msg mod n) *)
(*                         with additional data TaggedHash("s2c/ecdsa/data", data) *)
(*   opening          R  = kG                                              *)
(*   committed nonce  k' = k + TaggedHash("s2c/ecdsa/point", R || data)    *)
(*   signature        ECDSA with nonce k', so r = x(R + tG) mod n          *)
(*   VerifyCommit     r = x(R + TaggedHash(R || data) G) mod n             *)
(*                                                                         *)
(* Anti-exfil: the host commits to its randomness rho with                 *)
(* c = TaggedHash("s2c/ecdsa/data", rho); the signer answers with the      *)
(* opening it WILL use -- which it can compute from c alone because the    *)
(* nonce derivation only sees the hash of the datum; after the host        *)
(* reveals rho the signer signs to contract with data = rho.               *)
(* S2cOriginalNonce is the ONE definition of that nonce: S2cSign and       *)
(* SignerCommit both use it.                                               *)
(***************************************************************************)
EXTENDS Ecdsa, Tags

S2cDataHash(data32) == TagHash(TagS2cData, data32)
HostCommit(rho32)   == S2cDataHash(rho32)

\* the first valid nonce of the library's default nonce function with 32 bytes of additional data
RECURSIVE S2cNonceFrom(_, _, _, _)
S2cNonceFrom(key32, msg32, ndata32, count) ==
  LET k == FromBytesBE(Nonce6979(key32, msg32, ndata32, << >>, count))
  IN  IF ValidSecret(k) THEN << k, count >> ELSE S2cNonceFrom(key32, msg32, ndata32, count + 1)
S2cOriginalNonce(key32, msg32, ndata32) == S2cNonceFrom(key32, msg32, ndata32, 0)[1]

\* commitment tweak; the point is hashed in compressed form, so the parity of R matters
S2cTweak(R, data32) == FromBytesBE(TagHash(TagS2cPoint, Ser33(R) \o data32))
\* R + tG: <<ok, point>>; fails if the tweak is not below N or the sum is the point at infinity
S2cCommitPoint(R, data32) ==
  LET t == S2cTweak(R, data32) IN
  IF ~Lt(t, N) THEN << FALSE, Inf >>
  ELSE LET C == PAdd(R, PMulG(t)) IN << ~IsInf(C), C >>

\* secp256k1_ecdsa_s2c_sign: <<ret, sigobj, opening point>>.  As ECDSA signing with the default nonce
\* function, every attempt tweaked; the opening is that of the attempt that produced the signature.
RECURSIVE S2cSignLoop(_, _, _, _, _, _)
S2cSignLoop(d, valid, key32, msg32, data32, count) ==
  LET nn == S2cNonceFrom(key32, msg32, S2cDataHash(data32), count)
      k  == nn[1]
      R  == PMulG(k)
      t  == S2cTweak(R, data32)
      k2 == SAdd(k, t)
  IN  IF ~Lt(t, N) \/ IsZero(k2) THEN << 0, << Zero, Zero >>, R >>
      ELSE LET a == SignWith(d, msg32, k2)
           IN  IF a[1] THEN (IF valid THEN << 1, << a[2], a[3] >>, R >> ELSE << 0, << Zero, Zero >>, R >>)
               ELSE S2cSignLoop(d, valid, key32, msg32, data32, nn[2] + 1)
S2cSign(key32, msg32, data32) ==
  LET ps == ParseSecret(key32)
  IN  S2cSignLoop(IF ps[1] THEN ps[2] ELSE One, ps[1], key32, msg32, data32, 0)

\* secp256k1_ecdsa_s2c_verify_commit on a signature object <<r, s>> and an opening point R (s is not looked at:
\* "the signature contains a commitment to data32 though it does not necessarily need to be a valid signature")
S2cVerifyCommit(obj, data32, R) ==
  LET c == S2cCommitPoint(R, data32) IN c[1] /\ Mod(c[2][1], N) = obj[1]

\* anti-exfil protocol steps
SignerCommit(msg32, key32, commitment32) == PMulG(S2cOriginalNonce(key32, msg32, commitment32))
AntiExfilSign(key32, msg32, rho32) == LET a == S2cSign(key32, msg32, rho32) IN << a[1], a[2] >>
HostVerify(obj, msg32, Q, rho32, R) == S2cVerifyCommit(obj, rho32, R) /\ VerifyEq(obj[1], obj[2], msg32, Q)
=============================================================================
