------------------------------- MODULE GroupLaw -------------------------------
(***************************************************************************)
(* What every addition / doubling / conversion routine of src/group.h and  *)
(* every scalar-multiplication routine (ecmult.h, ecmult_const.h,          *)
(* ecmult_gen.h) must return: the AFFINE group law of Curve.tla (PAdd,     *)
(* PDbl, PMul), whatever the Jacobian representation (z coordinates,       *)
(* magnitudes) of the operands and whatever the scratch space.             *)
(* A point in a record is <<inf, x32, y32>>; <<1, <<>>, <<>>>> = infinity. *)
(***************************************************************************)
EXTENDS ScalarApi, TLC

PtOf(t) == IF t[1] = 1 THEN Inf ELSE << FromBytesBE(t[2]), FromBytesBE(t[3]) >>
PtEnc(Q) == IF IsInf(Q) THEN << 1, << >>, << >> >> ELSE << 0, X32(Q), Y32(Q) >>
FeOf(b) == Mod(FromBytesBE(b), P)
GlBool(b) == IF b THEN 1 ELSE 0
Has(i, f) == f \in DOMAIN i
OnCurveXY(x, y) == FSqr(y) = CurveRhs(x)

\* specified observable result of a KGroup record
GlOut(i) ==
  LET A  == IF Has(i, "a") THEN PtOf(i.a) ELSE Inf
      Bp == IF Has(i, "b") THEN PtOf(i.b) ELSE Inf
      WithRzr(rec) == IF Has(i, "rzr") /\ i.rzr = 1 THEN rec @@ [ rzr_ok |-> 1 ] ELSE rec IN
  CASE i.fn \in { "add_var", "add_var_inplace", "add_ge_var" } -> WithRzr([ r |-> PtEnc(PAdd(A, Bp)) ])
    [] i.fn \in { "add_ge", "add_ge_inplace", "add_zinv_var" } -> [ r |-> PtEnc(PAdd(A, Bp)) ]
    [] i.fn = "double" -> [ r |-> PtEnc(PDbl(A)) ]
    [] i.fn = "double_var" -> WithRzr([ r |-> PtEnc(PDbl(A)) ])
    [] i.fn \in { "set_gej", "set_gej_var" } -> [ r |-> PtEnc(A) ]
    [] i.fn \in { "set_all_gej", "set_all_gej_var" } -> [ rs |-> i.pts ]
    [] i.fn = "eq_x_var" -> [ ret |-> GlBool(FeOf(i.x) = A[1]) ]
    [] i.fn = "rescale" -> [ r |-> PtEnc(A), z_ok |-> 1 ]
    [] i.fn \in { "eq_var", "eq_ge_var", "ge_eq_var" } -> [ ret |-> GlBool(A = Bp) ]
    [] i.fn \in { "neg", "ge_neg" } -> [ r |-> PtEnc(PNeg(A)) ]
    [] i.fn = "cmov" -> [ r |-> PtEnc(IF i.f = 1 THEN Bp ELSE A) ]
    [] i.fn = "mul_lambda" -> [ r |-> PtEnc(PMul(ScLambda, A)) ]
    [] i.fn = "set_xo_var" -> LET l == LiftXOdd(FeOf(i.x), i.f = 1) IN
                              IF l[1] THEN [ ret |-> 1, r |-> PtEnc(l[2]) ] ELSE [ ret |-> 0 ]
    [] i.fn = "set_xquad" -> LET l == LiftXQuad(FeOf(i.x)) IN
                             IF l[1] THEN [ ret |-> 1, r |-> PtEnc(l[2]) ] ELSE [ ret |-> 0 ]
    [] i.fn = "x_on_curve_var" -> [ ret |-> GlBool(IsSquare(CurveRhs(FeOf(i.x)))) ]
    [] i.fn = "x_frac_on_curve_var" -> [ ret |-> GlBool(IsSquare(CurveRhs(FMul(FeOf(i.x), FInv(FeOf(i.d)))))) ]
    [] i.fn = "is_valid_var" -> [ ret |-> GlBool(~IsInf(A) /\ OnCurveXY(A[1], A[2])) ]
    [] i.fn = "has_quad_y_var" -> [ ret |-> GlBool(~IsInf(A) /\ IsSquare(A[2])) ]
    [] i.fn = "storage" -> [ r |-> PtEnc(A), r2 |-> PtEnc(A) ]

\* design-level theorem on the endomorphism: lambda * (x, y) = (beta * x, y)
GlRecordSound(i, o) ==
  /\ (i.fn = "mul_lambda" /\ i.a[1] = 0 => LET A == PtOf(i.a) IN PtOf(o.r) = << FMul(FeBeta, A[1]), A[2] >>)
  /\ ("r" \in DOMAIN o => IsOnCurve(PtOf(o.r)))

\* ---- scalar multiplication ---------------------------------------------------------------------
RECURSIVE GlSum(_, _, _)
GlSum(scs, pts, j) == IF j > Len(scs) THEN Inf ELSE PAdd(PMul(ScOfBytes(scs[j]), PtOf(pts[j])), GlSum(scs, pts, j + 1))
EmOut(i) ==
  CASE i.fn = "ecmult" -> [ r |-> PtEnc(PAdd(PMul(ScOfBytes(i.na), PtOf(i.p)), IF Has(i, "ng") THEN PMulG(ScOfBytes(i.ng)) ELSE Inf)) ]
    [] i.fn = "const" -> [ r |-> PtEnc(PMul(ScOfBytes(i.q), PtOf(i.p))) ]
    [] i.fn = "xonly" -> LET x == IF Has(i, "d") THEN FMul(FeOf(i.n), FInv(FeOf(i.d))) ELSE FeOf(i.n)
                             l == LiftX(x) IN
                         IF ~l[1] THEN (IF i.known = 1 THEN [ precondition_violated |-> 1 ] ELSE [ ret |-> 0 ])
                         ELSE [ ret |-> 1, rx |-> X32(PMul(ScOfBytes(i.q), l[2])) ]
    [] i.fn = "gen" -> IF Has(i, "seed") THEN [ r |-> PtEnc(PMulG(ScOfBytes(i.a))), rret |-> 1 ] ELSE [ r |-> PtEnc(PMulG(ScOfBytes(i.a))) ]
    [] i.fn = "multi" -> LET s == PtEnc(PAdd(GlSum(i.sc, i.pts, 1), IF Has(i, "ng") THEN PMulG(ScOfBytes(i.ng)) ELSE Inf)) IN
                         [ ret |-> [j \in 1..Len(i.scratch) |-> 1], rs |-> [j \in 1..Len(i.scratch) |-> s] ]
=============================================================================
