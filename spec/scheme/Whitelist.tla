------------------------------- MODULE Whitelist -------------------------------
(***************************************************************************)
(* Whitelist proofs (src/modules/whitelist/whitelist.md): a single         *)
(* Borromean ring over the keys  online_i + H(offline_i + W)(offline_i + W) *)
(* for the whitelisted key W, message = H(W || offline_0 || online_0 ...). *)
(* A signature is (n_keys, e0, s_0 .. s_{n-1}); serialized as one count    *)
(* byte followed by 32(n+1) bytes.                                          *)
(***************************************************************************)
EXTENDS Borromean, Ecdsa

WlMaxKeys == 255
\* offline_i = -W is a legal key list entry (anyone can compute -W): offline_i + W is the point at infinity, the tweak step has
\* nothing to hash and leaves it, and the ring key of that pair is just online_i
WlTweaked(off, W) == LET T == PAdd(off, W) IN IF T = Inf THEN Inf ELSE PMul(FromBytesBE(Sha256Hash(Ser33(T))), T)
WlRingKey(on, off, W) == PAdd(WlTweaked(off, W), on)
WlRingKeys(ons, offs, W) == [i \in 1..Len(ons) |-> WlRingKey(ons[i], offs[i], W)]
WlMsg(ons, offs, W) ==
  Sha256Hash(Ser33(W) \o Flatten([i \in 1..Len(ons) |-> Ser33(offs[i]) \o Ser33(ons[i])]))

\* parser of the serialized form: <<ok, n, data>> (data = e0 || s_0 .. s_{n-1})
WlParse(b) ==
  IF Len(b) = 0 THEN << FALSE, 0, << >> >>
  ELSE IF b[1] > WlMaxKeys \/ Len(b) # 1 + 32 * (b[1] + 1) THEN << FALSE, 0, << >> >>
  ELSE << TRUE, b[1], SubSeq(b, 2, Len(b)) >>
WlSerialize(n, data) == << n >> \o data
WlScalar(data, i) == FromBytesBE(SubSeq(data, 32 * i + 1, 32 * i + 32))   \* i = 1..n

\* verification: a NON-EMPTY list, matching count, every s in [1, N), ring equation
WlVerify(n, data, ons, offs, W) ==
  /\ n >= 1 /\ n <= WlMaxKeys /\ n = Len(ons)
  /\ \A i \in 1..n : LET s == WlScalar(data, i) IN ~IsZero(s) /\ Lt(s, N)
  /\ BorVerify(SubSeq(data, 1, 32), [i \in 1..n |-> WlScalar(data, i)],
               WlRingKeys(ons, offs, W), << n >>, WlMsg(ons, offs, W))[1]

\* signing: <<ret, n, data>>.  Secret of the ring member = summed * H(summed G) + online;
\* nonce and forged scalars from RFC 6979 keyed with that secret, message bytes 0/1 XORed with
\* the member number; the whole derivation restarts with the next counter if a value is unusable.
WlMsgFor(msg, i) == [msg EXCEPT ![1] = @ ^^ ((i + 1) % 256), ![2] = @ ^^ ((i + 1) \div 256)]   \* i 0-based
RECURSIVE WlDerive(_, _, _, _)
WlDerive(sec32, msg, n, count) ==
  LET non == FromBytesBE(Nonce6979(sec32, msg, << >>, << >>, count))
      ss  == [i \in 1..n |-> FromBytesBE(Nonce6979(sec32, WlMsgFor(msg, i - 1), << >>, << >>, count))]
  IN  IF ~Lt(non, N) \/ IsZero(non) \/ \E i \in 1..n : ~Lt(ss[i], N) \/ IsZero(ss[i])
      THEN WlDerive(sec32, msg, n, count + 1)
      ELSE << non, ss >>
WlSign(ons, offs, W, onsec32, sumsec32, index) ==
  LET sum == FromBytesBE(sumsec32)  onl == FromBytesBE(onsec32)  n == Len(ons) IN
  IF ~ValidSecret(sum) \/ ~ValidSecret(onl) THEN << 0, 0, << >> >>
  ELSE LET sec == SAdd(SMul(sum, FromBytesBE(Sha256Hash(Ser33(PMulG(sum))))), onl)
           msg == WlMsg(ons, offs, W)
           d   == WlDerive(Scalar32(sec), msg, n, 0)
           b   == BorSign(WlRingKeys(ons, offs, W), d[2], << d[1] >>, << sec >>, << n >>, << index >>, msg)
       IN  IF ~b[1] THEN << 0, 0, << >> >>
           ELSE << 1, n, b[2] \o Flatten([i \in 1..n |-> Scalar32(b[3][i])]) >>
=============================================================================
