------------------------------- MODULE Ecdsa -------------------------------
(***************************************************************************)
(* ECDSA over the Curve instance, as the public headers and SEC 1 / RFC    *)
(* 6979 define it.  A signature object is the pair <<r, s>> of scalars     *)
(* below N (parsers produce nothing else; a failed parse leaves <<0,0>>).  *)
(***************************************************************************)
EXTENDS Curve, Hmac

MsgScalar(m32) == Mod(FromBytesBE(m32), N)

\* the ECDSA equation with the library's low-S rule
VerifyEq(r, s, m32, Q) ==
  /\ ~IsZero(r) /\ Lt(r, N)
  /\ ~IsZero(s) /\ Lt(s, N) /\ ~IsHigh(s)
  /\ ~IsInf(Q)
  /\ LET si == SInv(s)
         R  == PAdd(PMulG(SMul(MsgScalar(m32), si)), PMul(SMul(r, si), Q))
     IN  ~IsInf(R) /\ Mod(R[1], N) = r

SigObj(sig64) ==  \* compact parser: <<ok, <<r, s>>>>
  LET r == FromBytesBE(SubSeq(sig64, 1, 32))  s == FromBytesBE(SubSeq(sig64, 33, 64))
  IN  IF Lt(r, N) /\ Lt(s, N) THEN << TRUE, << r, s >> >> ELSE << FALSE, << Zero, Zero >> >>
SigBytes(obj) == ToBytesBE(obj[1], 32) \o ToBytesBE(obj[2], 32)

\* secp256k1_ecdsa_signature_normalize: <<was high, normalized object>>
Normalize(obj) == IF IsHigh(obj[2]) THEN << 1, << obj[1], SNeg(obj[2]) >> >> ELSE << 0, obj >>

\* RFC 6979 nonce as the library derives it: HMAC-DRBG seeded with
\* key32 || (msg mod N) as 32 bytes || [extra32] || [algo16]; (counter+1)-th output
Nonce6979(key32, msg32, extra, algo, counter) ==
  DrbgNth(DrbgInit(key32 \o ToBytesBE(MsgScalar(msg32), 32) \o extra \o algo), counter)

\* one signing attempt with nonce scalar k (valid), key scalar d: <<ok, r, s, recid>>
SignWith(d, m32, k) ==
  LET R  == PMulG(k)
      r  == Mod(R[1], N)
      ov == IF Lt(R[1], N) THEN 0 ELSE 1
      s0 == SMul(SInv(k), SAdd(MsgScalar(m32), SMul(r, d)))
      hi == IsHigh(s0)
      s  == IF hi THEN SNeg(s0) ELSE s0
      odd == IF FIsOdd(R[2]) THEN 1 ELSE 0
      rid0 == ov * 2 + odd
      rid == IF hi THEN (IF odd = 1 THEN rid0 - 1 ELSE rid0 + 1) ELSE rid0
  IN  << ~IsZero(r) /\ ~IsZero(s), r, s, rid >>

ZeroSig == << 0, << Zero, Zero >>, 0 >>
\* nonce sources: <<"rfc", key32, extra>> (default function; extra = <<>> when absent) or
\* <<"seq", nonces>> (a caller-supplied function that returns nonces[counter+1] and then fails)
\* <<"rfcskip", key32, extra, skip>> (a caller-written function that answers the first `skip` attempts with an all-zero, hence
\* invalid, nonce and hands every later attempt -- with the attempt number it was given -- to secp256k1_nonce_function_rfc6979)
NonceAt(src, m32, c) ==
  IF src[1] = "rfc" THEN << TRUE, Nonce6979(src[2], m32, src[3], << >>, c) >>
  ELSE IF src[1] = "rfcskip" THEN << TRUE, IF c < src[4] THEN [i \in 1..32 |-> 0] ELSE Nonce6979(src[2], m32, src[3], << >>, c) >>
  ELSE IF c < Len(src[2]) THEN << TRUE, src[2][c+1] >> ELSE << FALSE, << >> >>

\* signing loop: <<ret, sigobj, recid>>
RECURSIVE SignLoop(_, _, _, _, _)
SignLoop(d, valid, m32, src, count) ==
  LET nn == NonceAt(src, m32, count)
  IN  IF ~nn[1] THEN ZeroSig
      ELSE LET k == FromBytesBE(nn[2])
           IN  IF ValidSecret(k)
               THEN LET a == SignWith(d, m32, k)
                    IN  IF a[1] THEN (IF valid THEN << 1, << a[2], a[3] >>, a[4] >> ELSE ZeroSig)
                        ELSE SignLoop(d, valid, m32, src, count + 1)
               ELSE SignLoop(d, valid, m32, src, count + 1)

\* secp256k1_ecdsa_sign / _sign_recoverable: an invalid key is replaced by 1 internally and
\* the result masked to (0, zero signature)
SignGeneric(key32, m32, src) ==
  LET ps == ParseSecret(key32)
  IN  SignLoop(IF ps[1] THEN ps[2] ELSE One, ps[1], m32, src, 0)
SignDefault(key32, m32, extra) == SignGeneric(key32, m32, << "rfc", key32, extra >>)
SignSeq(key32, m32, nonces)    == SignGeneric(key32, m32, << "seq", nonces >>)

\* public-key recovery: <<ok, Q>>
Recover(obj, recid, m32) ==
  LET r == obj[1]  s == obj[2] IN
  IF IsZero(r) \/ IsZero(s) THEN << FALSE, Inf >>
  ELSE LET x == IF recid \div 2 = 1 THEN Add(r, N) ELSE r
       IN  IF ~Lt(x, P) THEN << FALSE, Inf >>
           ELSE LET l == LiftXOdd(x, recid % 2 = 1)
                IN  IF ~l[1] THEN << FALSE, Inf >>
                    ELSE LET rn == SInv(r)
                             Q  == PAdd(PMulG(SNeg(SMul(rn, MsgScalar(m32)))), PMul(SMul(rn, s), l[2]))
                         IN  << ~IsInf(Q), Q >>
=============================================================================
