------------------------------- MODULE RangeProof -------------------------------
(***************************************************************************)
(* Back-Maxwell range proofs over Borromean ring signatures as described   *)
(* in include/secp256k1_rangeproof.h.                                      *)
(*                                                                         *)
(* A proof for the commitment C = b G + value H claims                     *)
(*     value = min + scale * v,   scale = 10^exp,   0 <= v < 2^mantissa    *)
(* by committing to the base-4 digits of v:  D_i = r_i G + d_i 4^i scale H *)
(* (i = 0 .. rings-1, the last ring has two members if the mantissa is     *)
(* odd), sum D_i = C - min H, and one ring signature per digit over the    *)
(* keys  D_i - j 4^i scale H  (j = 0..3): exactly one of them is a         *)
(* multiple of G known to the prover.  exp = -1 ("exact value") is the     *)
(* degenerate proof with a single one-member ring over C - min H.          *)
(*                                                                         *)
(* Serialized proof:                                                        *)
(*   header   1 byte : bit7 reserved (0), bit6 "has range", bit5 "has min",*)
(*                     bits0-4 exponent (<= 18, only read with bit6)       *)
(*            1 byte mantissa-1 (<= 63)              -- only with bit6     *)
(*            8 bytes minimum value, big endian      -- only with bit5     *)
(*   signs    ceil((rings-1)/8) bytes, bit i = 1 iff y(D_i) is a non-square*)
(*            (unused high bits must be 0)                                 *)
(*   digits   (rings-1) x 32 bytes  x(D_i) < p; D_last is derived          *)
(*   e0       32 bytes                                                     *)
(*   s        one 32-byte scalar < n per ring member                        *)
(* and nothing else (exact length).  Every ring hash is bound to           *)
(*   m = SHA256(C || H || header || (sign_i || x(D_i))_i || extra data).   *)
(*                                                                         *)
(* Parts: (1) point codecs, (2) header codec + Info, (3) Verify,           *)
(* (4) ProveParams -- a DELIBERATE TRANSCRIPTION of the clamp logic of     *)
(* secp256k1_range_proveparams in U64 arithmetic (the property is about    *)
(* that case analysis; its design-level post-conditions are model-checked  *)
(* in C09_RangeProve), (5) GenRand/Sign -- the deterministic prover,       *)
(* (6) Rewind, (7) MaxSize.                                                 *)
(***************************************************************************)
EXTENDS Borromean, U64, TLC, Integers

-----------------------------------------------------------------------------
\* (1) encodings with "y is a quadratic residue" as the sign convention
\* 33-byte external form: prefix base (y square) / base+1 (y non-square); base = 8 commitments, 10 generators
RpLoadQuad(b, base) ==
  IF Len(b) # 33 \/ (b[1] # base /\ b[1] # base + 1) THEN << FALSE, Inf >>
  ELSE LET l == LiftXQuad(FromBytesBE(SubSeq(b, 2, 33)))
       IN  IF ~l[1] THEN << FALSE, Inf >> ELSE << TRUE, IF b[1] = base + 1 THEN PNeg(l[2]) ELSE l[2] >>
RpParseCommit(b) == RpLoadQuad(b, 8)
RpParseGen(b)    == RpLoadQuad(b, 10)
RpSerQuad(Q, base) == << IF IsSquare(Q[2]) THEN base ELSE base + 1 >> \o X32(Q)
RpSerCommit(Q) == RpSerQuad(Q, 8)
RpSerGen(Q)    == RpSerQuad(Q, 10)
\* form used inside hashes and the nonce seed: 0/1 then x
RpSerPoint(Q) == RpSerQuad(Q, 0)
\* Pedersen commitment  b G + v H  (v a uint64)
RpCommitPoint(b, v, H) == PAdd(PMulG(b), PMul(v, H))

-----------------------------------------------------------------------------
\* ring layout for a mantissa (0 = exact value): radix-4 digits, a final radix-2 digit for odd mantissas
RpRsizes(mant) == IF mant = 0 THEN << 1 >> ELSE [i \in 1..((mant + 1) \div 2) |-> IF i <= mant \div 2 THEN 4 ELSE 2]
RECURSIVE RpSum(_)
RpSum(s) == IF Len(s) = 0 THEN 0 ELSE Head(s) + RpSum(Tail(s))
RpSignBytes(rings) == (rings + 6) \div 8
\* bytes after the header: sign bytes, explicit digits, e0, one scalar per member
RpBodyLen(rings, npub) == RpSignBytes(rings) + 32 * (rings - 1) + 32 + 32 * npub
RpMin2(a, b) == IF a <= b THEN a ELSE b
RpMax2(a, b) == IF a >= b THEN a ELSE b

-----------------------------------------------------------------------------
\* (2) header codec.  A proof is never shorter than 65 bytes (smallest: exact value, no minimum).
RpHdrFail == [ ok |-> FALSE ]
RpHeader(b) ==
  IF Len(b) < 65 THEN RpHdrFail
  ELSE IF b[1] >= 128 THEN RpHdrFail                                   \* reserved bit
  ELSE LET hasRange == (b[1] \div 64) % 2 = 1
           hasMin   == (b[1] \div 32) % 2 = 1
           exp      == IF hasRange THEN b[1] % 32 ELSE -1
           mant     == IF hasRange THEN b[2] + 1 ELSE 0
           o1       == IF hasRange THEN 2 ELSE 1
       IN  IF hasRange /\ (exp > 18 \/ mant > 64) THEN RpHdrFail
           ELSE LET scale == U64Pow10(exp)
                    span  == IF hasRange THEN Mul(U64LowMask(mant), scale) ELSE Zero     \* (2^mant - 1) 10^exp, exact
                    minv  == IF hasMin THEN U64From8(SubSeq(b, o1 + 1, o1 + 8)) ELSE Zero
                    off   == IF hasMin THEN o1 + 8 ELSE o1
                IN  IF ~IsU64(span) THEN RpHdrFail                                       \* scale overflow
                    ELSE IF ~IsU64(Add(span, minv)) THEN RpHdrFail                       \* min + max must stay below 2^64
                    ELSE [ ok |-> TRUE, exp |-> exp, mant |-> mant, scale |-> scale, min |-> minv,
                           max |-> Add(span, minv), off |-> off ]
\* mant = 0: exact value (exp ignored)
RpHeaderBytes(exp, mant, minv) ==
     << (IF mant > 0 THEN 64 + exp ELSE 0) + (IF IsZero(minv) THEN 0 ELSE 32) >>
  \o (IF mant > 0 THEN << mant - 1 >> ELSE << >>)
  \o (IF IsZero(minv) THEN << >> ELSE U64To8(minv))
\* secp256k1_rangeproof_info: header only
RpInfo(proof) == RpHeader(proof)

-----------------------------------------------------------------------------
\* (3) verification
RECURSIVE RpBases(_, _, _)            \* 4^i scale H for i = 0 .. n-1
RpBases(b0, n, acc) == IF n = 0 THEN acc ELSE RpBases(PDbl(PDbl(b0)), n - 1, Append(acc, b0))
RECURSIVE RpRingKeys(_, _, _, _)      \* D, D - base, D - 2 base, ...
RpRingKeys(D, negbase, size, acc) == IF size = 0 THEN acc ELSE RpRingKeys(PAdd(D, negbase), negbase, size - 1, Append(acc, D))
RpKeys(Ds, bases, rs) == Flatten([i \in 1..Len(rs) |-> RpRingKeys(Ds[i], PNeg(bases[i]), rs[i], << >>)])
RpMsgHash(C, H, hdr, signs, xs, extra) ==
  Sha256Hash(RpSerPoint(C) \o RpSerPoint(H) \o hdr
             \o (IF Len(xs) = 0 THEN << >> ELSE Flatten([i \in 1..Len(xs) |-> << signs[i] >> \o xs[i]])) \o extra)

RpVFail == [ ok |-> FALSE ]
\* full result: ok, min, max (valid when ok) and the data a rewind needs
RpVerifyFull(C, H, extra, proof) ==
  LET h == RpHeader(proof) IN
  IF ~h.ok THEN RpVFail
  ELSE
  LET rs    == RpRsizes(h.mant)
      rings == Len(rs)
      npub  == RpSum(rs)
      doff  == h.off + RpSignBytes(rings)        \* digits start behind this offset
      eoff  == doff + 32 * (rings - 1)           \* e0 starts behind this offset
  IN
  IF Len(proof) # h.off + RpBodyLen(rings, npub) THEN RpVFail                            \* exact length
  ELSE
  LET signs == IF rings = 1 THEN << >> ELSE [i \in 1..(rings - 1) |-> (proof[h.off + 1 + ((i - 1) \div 8)] \div (2^((i - 1) % 8))) % 2]
      spare == IF (rings - 1) % 8 = 0 THEN 0 ELSE proof[doff] \div (2^((rings - 1) % 8))
      xs    == IF rings = 1 THEN << >> ELSE [i \in 1..(rings - 1) |-> SubSeq(proof, doff + 32 * (i - 1) + 1, doff + 32 * i)]
      lifts == IF rings = 1 THEN << >> ELSE [i \in 1..(rings - 1) |-> LiftXQuad(FromBytesBE(xs[i]))]
      ss    == [i \in 1..npub |-> FromBytesBE(SubSeq(proof, eoff + 32 * i + 1, eoff + 32 * i + 32))]
  IN
  IF spare # 0 THEN RpVFail                                                              \* unused sign bits
  ELSE IF \E i \in 1..(rings - 1) : ~lifts[i][1] THEN RpVFail                            \* x >= p or not on the curve
  ELSE IF \E i \in 1..npub : ~Lt(ss[i], N) THEN RpVFail                                  \* scalar >= n
  ELSE
  LET Dexp  == IF rings = 1 THEN << >> ELSE [i \in 1..(rings - 1) |-> IF signs[i] = 1 THEN PNeg(lifts[i][2]) ELSE lifts[i][2]]
      Dlast == PSub(C, PAdd(PMul(h.min, H), SumPoints(Dexp)))                            \* derived last digit commitment
  IN
  IF IsInf(Dlast) THEN RpVFail
  ELSE
  LET bases == RpBases(PMul(h.scale, H), rings, << >>)
      keys  == RpKeys(Append(Dexp, Dlast), bases, rs)
      m     == RpMsgHash(C, H, SubSeq(proof, 1, h.off), signs, xs, extra)
      bv    == BorVerify(SubSeq(proof, eoff + 1, eoff + 32), ss, keys, rs, m)
  IN  [ ok |-> bv[1], min |-> h.min, max |-> h.max, hdr |-> h, rs |-> rs, ss |-> ss, evs |-> bv[2] ]

\* <<accepted, min, max>>; min/max meaningful only when accepted
RpVerify(C, H, extra, proof) ==
  LET r == RpVerifyFull(C, H, extra, proof) IN IF r.ok THEN << TRUE, r.min, r.max >> ELSE << FALSE, Zero, Zero >>

-----------------------------------------------------------------------------
\* (4) parameter derivation -- TRANSCRIPTION of secp256k1_range_proveparams (rangeproof_impl.h) in U64
\* arithmetic, preceded by the argument checks of secp256k1_rangeproof_sign_impl.
\* Result fields: v (blinded mantissa value), rsizes, secidx (0-based digit per ring), npub (as the C code
\* counts it: 2 for an exact-value proof although that ring has one member), min, mant (0 = exact value),
\* scale, exp, mb.
RpPFail == [ ok |-> FALSE ]
RECURSIVE RpExpLoop(_, _, _, _)
RpExpLoop(v, v2, i, exp) ==
  IF i < exp /\ Leq(v2, U64MaxDiv10) THEN RpExpLoop(U64Div10(v), U64Mul(v2, U64Ten), i + 1, exp) ELSE << v, i >>
RECURSIVE RpScaleLoop(_, _, _, _)
RpScaleLoop(v2, scale, i, exp) ==
  IF i < exp THEN RpScaleLoop(U64Mul(v2, U64Ten), U64Mul(scale, U64Ten), i + 1, exp) ELSE << v2, scale >>

RpProveParams(value, minv0, exp0, mb0) ==
  LET exp1 == IF minv0 = U64Max THEN -1 ELSE exp0 IN
  IF exp1 >= 0 THEN
    IF (~IsZero(minv0) /\ Lt(I64Max, value)) \/ (~IsZero(value) /\ Leq(I64Max, minv0)) THEN RpPFail
    ELSE
    LET maxbits == IF IsZero(minv0) THEN 64 ELSE U64Clz(minv0)
        mb1     == IF mb0 > maxbits THEN maxbits ELSE mb0
        exp2    == IF mb1 > 61 \/ Lt(I64Max, value) THEN 0 ELSE exp1
        v0      == U64Sub(value, minv0)
        v2a     == IF mb1 # 0 THEN U64ShrK(U64Max, 64 - mb1) ELSE Zero
        lp      == RpExpLoop(v0, v2a, 0, exp2)
        v       == lp[1]
        exp3    == lp[2]
        sl      == RpScaleLoop(v, One, 0, exp3)
        minv    == U64Sub(value, sl[1])
        mant0   == IF IsZero(v) THEN 1 ELSE 64 - U64Clz(v)
        mant    == IF mb1 > mant0 THEN mb1 ELSE mant0
        rings   == (mant + 1) \div 2
        rsizes  == [i \in 1..rings |-> IF i < rings \/ mant % 2 = 0 THEN 4 ELSE 2]
    IN  [ ok |-> TRUE, v |-> v, rsizes |-> rsizes, secidx |-> [i \in 1..rings |-> U64Digit4(v, i - 1)],
          npub |-> RpSum(rsizes), min |-> minv, mant |-> mant, scale |-> sl[2], exp |-> exp3, mb |-> mb1 ]
  ELSE [ ok |-> TRUE, v |-> Zero, rsizes |-> << 1 >>, secidx |-> << 0 >>, npub |-> 2, min |-> value, mant |-> 0,
         scale |-> One, exp |-> 0, mb |-> mb0 ]

RpSignParams(value, minv, exp, mb) ==
  IF Lt(value, minv) \/ mb > 64 \/ mb < 0 \/ exp < -1 \/ exp > 18 THEN RpPFail
  ELSE RpProveParams(value, minv, exp, mb)

\* what the header promises about a parameter set ("allowed range is -1 to 18", "0 .. 64", "if min_value or exp
\* is non-zero then the value must be on the range [0, 2^63)"), read literally
RpDocValid(value, minv, exp, mb) ==
  /\ Leq(minv, value) /\ exp >= -1 /\ exp <= 18 /\ mb >= 0 /\ mb <= 64
  /\ ((IsZero(minv) /\ exp = 0) \/ Leq(value, I64Max))
\* proven range of a parameter record
RpParamMax(pp) == IF pp.mant = 0 THEN pp.min ELSE Add(pp.min, Mul(U64LowMask(pp.mant), pp.scale))
RpParamHeader(pp) == RpHeaderBytes(pp.exp, pp.mant, pp.min)
RpParamLen(pp) == Len(RpParamHeader(pp)) + RpBodyLen(Len(pp.rsizes), RpSum(pp.rsizes))
\* output buffer the signer insists on (it budgets with pp.npub)
RpParamNeed(pp) == RpMax2(65, Len(RpParamHeader(pp)) + 32 * (pp.npub + Len(pp.rsizes) - 1) + 32 + RpSignBytes(Len(pp.rsizes)))
RpMsgCapacity(pp) == 128 * (Len(pp.rsizes) - 1)

-----------------------------------------------------------------------------
\* (7) advertised size bound for values up to maxv with min_bits = mb (0..64)
RpMaxSize(maxv, mb) ==
  LET vm == IF IsZero(maxv) THEN 1 ELSE U64Bits(maxv)
      rs == RpRsizes(RpMax2(mb, vm))
  IN  10 + RpBodyLen(Len(rs), RpSum(rs))

-----------------------------------------------------------------------------
\* (5) the prover's deterministic randomness (secp256k1_rangeproof_genrand, transcribed): an RFC 6979
\* HMAC-DRBG seeded with nonce || C || H || header.  Per ring but the last: one output is discarded, then
\* outputs are drawn until one is a valid scalar -> blinding factor of that digit (the last ring gets minus
\* their sum); then one output per ring member, XORed with the 32-byte chunk (4 ring + member) of the
\* prepared message.  Returns <<all member values usable, blinding factors, XORed 32-byte strings>>.
RECURSIVE RpGenSec(_)
RpGenSec(st) == LET g == DrbgGenerate(st, 32)  x == FromBytesBE(g[1])
                IN  IF Lt(x, N) /\ ~IsZero(x) THEN << x, g[2] >> ELSE RpGenSec(g[2])
RECURSIVE RpGenMembers(_, _, _, _, _, _)
RpGenMembers(st, pos, left, prep, raw, ok) ==
  IF left = 0 THEN << st, raw, ok >>
  ELSE LET g == DrbgGenerate(st, 32)
           t == BXor(g[1], prep[pos])
           x == FromBytesBE(t)
       IN  RpGenMembers(g[2], pos + 1, left - 1, prep, Append(raw, t), ok /\ Lt(x, N) /\ ~IsZero(x))
RECURSIVE RpGenRings(_, _, _, _, _, _, _, _)
RpGenRings(st, i, rs, prep, acc, secs, raw, ok) ==
  IF i < Len(rs)
  THEN LET g0 == DrbgGenerate(st, 32)
           d  == RpGenSec(g0[2])
           mm == RpGenMembers(d[2], 4 * (i - 1) + 1, rs[i], prep, raw, ok)
       IN  RpGenRings(mm[1], i + 1, rs, prep, SAdd(acc, d[1]), Append(secs, d[1]), mm[2], mm[3])
  ELSE LET mm == RpGenMembers(st, 4 * (i - 1) + 1, rs[i], prep, raw, ok)
       IN  << mm[3], Append(secs, SNeg(acc)), mm[2] >>
RpGenRand(nonce32, C, H, hdr, rs, prep) ==
  RpGenRings(DrbgInit(nonce32 \o RpSerPoint(C) \o RpSerPoint(H) \o hdr), 1, rs, prep, Zero, << >>, << >>, TRUE)

\* prepared message: the message zero-padded, cut into 32-byte chunks; chunk 4 i + j belongs to member j of ring i
RpPrepChunks(msg, nch) == [c \in 1..nch |-> [b \in 1..32 |-> IF 32 * (c - 1) + b <= Len(msg) THEN msg[32 * (c - 1) + b] ELSE 0]]
\* value side channel placed on a forged member of the last ring
RpValueChunk(v) == << 128, 0, 0, 0, 0, 0, 0, 0 >> \o U64To8(v) \o U64To8(v) \o U64To8(v)
RECURSIVE RpPackBits(_, _, _)
RpPackBits(signs, first, t) ==   \* bits first .. first+7-t of signs as one byte (bit t upwards)
  IF t > 7 \/ first > Len(signs) THEN 0 ELSE signs[first] * (2^t) + RpPackBits(signs, first + 1, t + 1)

RpSFail == [ ok |-> FALSE ]
\* secp256k1_rangeproof_sign: C, H points; msg/extra byte strings (absent = empty); plen = output capacity
RpSign(C, H, blind32, nonce32, value, minv, exp, mb, msg, extra, plen) ==
  IF plen < 65 THEN RpSFail
  ELSE
  LET pp == RpSignParams(value, minv, exp, mb) IN
  IF ~pp.ok THEN RpSFail
  ELSE
  LET hdr   == RpParamHeader(pp)
      rs    == pp.rsizes
      rings == Len(rs)
      nch   == RpSum(rs)
  IN
  IF Len(msg) > RpMsgCapacity(pp) THEN RpSFail                         \* the last ring carries value and blinding factor
  ELSE IF plen < RpParamNeed(pp) THEN RpSFail
  ELSE
  LET idx0  == rs[rings] - 1
      vpos  == 4 * (rings - 1) + (IF pp.secidx[rings] = idx0 THEN idx0 - 1 ELSE idx0) + 1
      p0    == RpPrepChunks(msg, nch)
      prep  == IF rs[rings] > 1 THEN [p0 EXCEPT ![vpos] = RpValueChunk(pp.v)] ELSE p0
      gr    == RpGenRand(nonce32, C, H, hdr, rs, prep)
  IN
  IF ~gr[1] THEN RpSFail
  ELSE
  LET sall    == [i \in 1..nch |-> FromBytesBE(gr[3][i])]
      ks      == [i \in 1..rings |-> sall[4 * (i - 1) + pp.secidx[i] + 1]]     \* the true member's value becomes the ring nonce
      bl      == FromBytesBE(blind32)
      seclast == SAdd(gr[2][rings], Mod(bl, N))
  IN
  IF ~Lt(bl, N) \/ IsZero(seclast) THEN RpSFail
  ELSE
  LET secs  == [gr[2] EXCEPT ![rings] = seclast]
      bases == RpBases(PMul(pp.scale, H), rings, << >>)
      Ds    == [i \in 1..rings |-> PAdd(PMulG(secs[i]), PMul(FromNat(pp.secidx[i]), bases[i]))]
  IN
  IF \E i \in 1..rings : IsInf(Ds[i]) THEN RpSFail
  ELSE
  LET xs    == IF rings = 1 THEN << >> ELSE [i \in 1..(rings - 1) |-> X32(Ds[i])]
      signs == IF rings = 1 THEN << >> ELSE [i \in 1..(rings - 1) |-> IF IsSquare(Ds[i][2]) THEN 0 ELSE 1]
      sb    == IF RpSignBytes(rings) = 0 THEN << >> ELSE [b \in 1..RpSignBytes(rings) |-> RpPackBits(signs, 8 * (b - 1) + 1, 0)]
      m     == RpMsgHash(C, H, hdr, signs, xs, extra)
      bs    == BorSign(RpKeys(Ds, bases, rs), sall, ks, secs, rs, pp.secidx, m)
  IN
  IF ~bs[1] THEN RpSFail
  ELSE [ ok |-> TRUE, pp |-> pp,
         proof |-> hdr \o sb \o Flatten(xs) \o bs[2] \o Flatten([i \in 1..nch |-> Scalar32(bs[3][i])]) ]

-----------------------------------------------------------------------------
\* (6) rewind: with the prover's nonce the receiver regenerates the random stream, finds the value side
\* channel on one of the two highest members of the last ring, identifies the true member of that ring from
\* the value's top digit, solves  s = k - e x  for the digit's blinding factor, removes the other digits'
\* blinding factors, and accepts iff  blind G + (v scale + min) H = C.  The message is read back from all
\* other members (forged ones: s XOR stream; true ones: k = s + e x).  vr = result of RpVerifyFull.
RpRFail == [ ok |-> FALSE ]
RpIsValueChunk(t) == t[1] >= 128 /\ SubSeq(t, 17, 24) = SubSeq(t, 25, 32) /\ SubSeq(t, 9, 16) = SubSeq(t, 17, 24)
RpRewindFrom(vr, C, H, proof, nonce32, mlenIn) ==
  IF ~vr.ok THEN RpRFail
  ELSE
  LET h     == vr.hdr
      rs    == vr.rs
      rings == Len(rs)
      nch   == RpSum(rs)
      s     == vr.ss
      ev    == vr.evs
      gr    == RpGenRand(nonce32, C, H, SubSeq(proof, 1, h.off), rs, [c \in 1..nch |-> Zeros(32)])
      raw   == gr[3]
      sorig == [i \in 1..nch |-> Mod(FromBytesBE(raw[i]), N)]
      RecX(p) == SMul(SSub(sorig[p], s[p]), SInv(ev[p]))
      Finish(blind, v, msg) ==
        LET vv == U64Add(U64Mul(v, h.scale), h.min)
            Q  == RpCommitPoint(blind, vv, H)
        IN  IF IsInf(Q) \/ Q # C THEN RpRFail
            ELSE [ ok |-> TRUE, value |-> vv, blind |-> blind, msg |-> msg, min |-> h.min, max |-> h.max ]
  IN
  IF rings = 1 /\ rs[1] = 1 THEN Finish(RecX(1), Zero, << >>)
  ELSE
  LET last0 == 4 * (rings - 1)
      T(j)  == BXor(Scalar32(s[last0 + rs[rings] - j]), raw[last0 + rs[rings] - j])
      j     == IF RpIsValueChunk(T(0)) THEN 0 ELSE IF RpIsValueChunk(T(1)) THEN 1 ELSE 2
  IN
  IF j = 2 THEN RpRFail
  ELSE
  LET v     == U64From8(SubSeq(T(j), 25, 32))
      skip1 == rs[rings] - 1 - j
      skip2 == U64Digit4(v, rings - 1)
  IN
  \* skip2 >= ring size: the C code would read a slot it never wrote; needs a forged value channel (2^-129), not specified
  IF skip1 = skip2 \/ skip2 >= rs[rings] THEN RpRFail
  ELSE
  LET p1    == last0 + skip1 + 1
      p2    == last0 + skip2 + 1
      blind == SAdd(RecX(p2), SNeg(gr[2][rings]))
      keep  == SelectSeq([p \in 1..nch |-> p], LAMBDA p : p # p1 /\ p # p2)
      Chunk(p) == LET i == ((p - 1) \div 4) + 1  jj == (p - 1) % 4
                  IN  BXor(Scalar32(IF U64Digit4(v, i - 1) = jj THEN SAdd(SMul(gr[2][i], ev[p]), s[p]) ELSE s[p]), raw[p])
      full  == IF Len(keep) = 0 THEN << >> ELSE Flatten([k \in 1..Len(keep) |-> Chunk(keep[k])])
  IN  Finish(blind, v, IF mlenIn = 0 THEN << >> ELSE SubSeq(full, 1, RpMin2(mlenIn, Len(full))))

RpRewind(C, H, extra, proof, nonce32, mlenIn) == RpRewindFrom(RpVerifyFull(C, H, extra, proof), C, H, proof, nonce32, mlenIn)

-----------------------------------------------------------------------------
\* API records shared by the C09 and C10 machines (harness/ops_rangeproof.h): verify + info (+ rewind)
RpApiCheck(C, H, proof, extra, hasNonce, nonce32, mlenIn) ==
  LET vr == RpVerifyFull(C, H, extra, proof)
      h  == RpInfo(proof)
      vp == IF vr.ok THEN [ vret |-> 1, vmin |-> U64To8(vr.min), vmax |-> U64To8(vr.max) ] ELSE [ vret |-> 0 ]
      ip == IF h.ok THEN [ iret |-> 1, iexp |-> h.exp, imant |-> h.mant, imin |-> U64To8(h.min), imax |-> U64To8(h.max) ] ELSE [ iret |-> 0 ]
      rp == IF ~hasNonce THEN [ icb |-> 0 ]
            ELSE LET rw == RpRewindFrom(vr, C, H, proof, nonce32, mlenIn) IN
                 \* rret0: the same rewind with NO output requested (blind, value, message, length all NULL): the verdict is the same
                 IF rw.ok THEN [ rret |-> 1, rret0 |-> 1, rvalue |-> U64To8(rw.value), rblind |-> Scalar32(rw.blind), rmsg |-> rw.msg,
                                 rmin |-> U64To8(rw.min), rmax |-> U64To8(rw.max), rguard |-> 1 ]
                 ELSE [ rret |-> 0, rret0 |-> 0 ]
  IN  vp @@ ip @@ rp @@ [ icb |-> 0 ]
RpOpt(i, k) == IF k \in DOMAIN i THEN i[k] ELSE << >>
RpOutVerify(i) ==
  LET c == RpParseCommit(i.commit)  g == RpParseGen(i.gen) IN
  IF ~c[1] THEN [ pret |-> 0 ]
  ELSE IF ~g[1] THEN [ pret |-> 1, gret |-> 0 ]
  ELSE [ pret |-> 1, gret |-> 1 ] @@ RpApiCheck(c[2], g[2], i.proof, RpOpt(i, "extra"), "nonce" \in DOMAIN i, RpOpt(i, "nonce"),
                                                IF "mlen" \in DOMAIN i THEN i.mlen ELSE 4096)
=============================================================================
