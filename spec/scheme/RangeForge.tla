------------------------------- MODULE RangeForge -------------------------------
(***************************************************************************)
(* An ADVERSARIAL range-proof prover living in the specification (C10).    *)
(* It knows the openings of its digit commitments and controls every free  *)
(* value of a proof: header bytes, digits, digit blinding factors, ring     *)
(* nonces, and every forged ring scalar (chosen SMALL, so that s + n still  *)
(* fits in 32 bytes and the specification's own multiplications are cheap). *)
(*                                                                          *)
(* It reads the header LENIENTLY -- no reserved-bit, exponent, mantissa or  *)
(* overflow checks -- and produces a proof whose ring equations hold for    *)
(* that reading.  Such a proof is rejected by RangeProof!RpVerify exactly   *)
(* when one of the header rules says so: an implementation that forgot the  *)
(* rule would accept it.  The commitment is derived from the digits, so any *)
(* (header, mantissa, exponent, minimum) combination is reachable.          *)
(***************************************************************************)
EXTENDS RangeProof

\* lenient header reading: layout only
RfLenient(hb) ==
  LET hasRange == (hb[1] \div 64) % 2 = 1
      hasMin   == (hb[1] \div 32) % 2 = 1
      o1       == IF hasRange THEN 2 ELSE 1
  IN  [ exp  |-> IF hasRange THEN hb[1] % 32 ELSE -1,
        mant |-> IF hasRange THEN hb[2] + 1 ELSE 0,
        minv |-> IF hasMin THEN U64From8(SubSeq(hb, o1 + 1, o1 + 8)) ELSE Zero ]

\* small scalars chosen by the adversary
RfSec(i)    == FromNat(1000 + i)        \* blinding factor of digit i (1-based)
RfNonce(i)  == FromNat(2000 + i)        \* ring nonce
RfForged(p) == FromNat(3000 + p)        \* forged scalar of member p (flat, 1-based)
RfDigit(i, size) == (7 * i + 1) % size  \* the committed digit of ring i

\* assemble a proof from digit commitments Ds (all rings), their serialized x coordinates xs (rings-1, normally
\* X32(Ds[i]) -- the adversary may write other bytes), the ring layout and the ring secrets
\* z = flat position (1-based) whose forged scalar the adversary chooses to be ZERO (0: none): the ring equation still closes
RfAssembleZ(hb, C, H, Ds, bases, rs, secidx, secs, extra, xs, z) ==
  LET rings == Len(rs)
      nch   == RpSum(rs)
      signs == IF rings = 1 THEN << >> ELSE [i \in 1..(rings - 1) |-> IF IsSquare(Ds[i][2]) THEN 0 ELSE 1]
      sb    == IF RpSignBytes(rings) = 0 THEN << >> ELSE [b \in 1..RpSignBytes(rings) |-> RpPackBits(signs, 8 * (b - 1) + 1, 0)]
      m     == RpMsgHash(C, H, hb, signs, xs, extra)
      bs    == BorSign(RpKeys(Ds, bases, rs), [p \in 1..nch |-> IF p = z THEN Zero ELSE RfForged(p)], [i \in 1..rings |-> RfNonce(i)], secs, rs, secidx, m)
  IN  [ ok |-> bs[1], C |-> C, H |-> H, rs |-> rs, secidx |-> secidx,
        soff |-> Len(hb) + Len(sb) + 32 * (rings - 1) + 32,          \* the scalars start behind this offset
        doff |-> Len(hb) + Len(sb),                                   \* the digit commitments start behind this offset
        proof |-> hb \o sb \o (IF rings = 1 THEN << >> ELSE Flatten(xs)) \o bs[2] \o Flatten([p \in 1..nch |-> Scalar32(bs[3][p])]) ]

RfAssemble(hb, C, H, Ds, bases, rs, secidx, secs, extra, xs) == RfAssembleZ(hb, C, H, Ds, bases, rs, secidx, secs, extra, xs, 0)

\* standard construction: D_i = sec_i G + d_i 4^i 10^exp H,  C = sum D_i + min H
RfProofZ(hb, H, extra, z) ==
  LET L     == RfLenient(hb)
      rs    == RpRsizes(L.mant)
      rings == Len(rs)
      ds    == [i \in 1..rings |-> IF rs[i] = 1 THEN 0 ELSE RfDigit(i, rs[i])]
      bases == RpBases(PMul(U64Pow10(L.exp), H), rings, << >>)
      secs  == [i \in 1..rings |-> RfSec(i)]
      Ds    == [i \in 1..rings |-> PAdd(PMulG(secs[i]), PMul(FromNat(ds[i]), bases[i]))]
      C     == PAdd(SumPoints(Ds), PMul(L.minv, H))
  IN  RfAssembleZ(hb, C, H, Ds, bases, rs, ds, secs, extra, IF rings = 1 THEN << >> ELSE [i \in 1..(rings - 1) |-> X32(Ds[i])], z)
RfProof(hb, H, extra) == RfProofZ(hb, H, extra, 0)
\* a digit commitment with a TINY x coordinate (so that x + p still fits in 32 bytes): the adversary picks the point T
\* first and then the GENERATOR  H' = T - sec G,  which makes member 1 of ring 0 (T - H') a known multiple of G.
\* Two rings (mantissa 4, exponent 0).  plusP: write x + p instead of x for that digit.
RECURSIVE RfTinyPoint(_)
RfTinyPoint(x) == LET l == LiftXQuad(FromNat(x)) IN IF l[1] THEN l[2] ELSE RfTinyPoint(x + 1)
RfTinyProof(extra, plusP) ==
  LET hb    == << 64, 3 >>
      T     == RfTinyPoint(1)
      H     == PSub(T, PMulG(RfSec(1)))
      rs    == << 4, 4 >>
      bases == RpBases(H, 2, << >>)
      D2    == PAdd(PMulG(RfSec(2)), PMul(FromNat(2), bases[2]))
      C     == PAdd(T, D2)
  IN  RfAssemble(hb, C, H, << T, D2 >>, bases, rs, << 1, 2 >>, << RfSec(1), RfSec(2) >>, extra,
                 << IF plusP THEN ToBytesBE(Add(T[1], P), 32) ELSE X32(T) >>)

\* "ring key at infinity": digit commitments with ZERO blinding, D_i = js[i] 4^i 10^exp H (js[i] >= 1), make member js[i] of ring i
\* the point at infinity.  Infinity has the known discrete logarithm 0: R = s G + e * infinity = s G does not depend on the
\* challenge, so the rings close for ARBITRARY non-zero scalars -- the chain of ring i is simply started at member js[i] with
\* "nonce" s, and e0 = SHA256(R_0,last || ... || m) is computed directly (Borromean!SignE0); nothing has to be solved for.
\* Everything else (header, lengths, sign bits, last digit derived from C = sum D_i + min H, i.e. a commitment to
\* min + scale * sum js[i] 4^i with blinding factor 0) is consistent: only "a ring key must not be infinity" rejects the proof.
RfInfProof(hb, H, js, extra) ==
  LET L     == RfLenient(hb)
      rs    == RpRsizes(L.mant)
      rings == Len(rs)
      nch   == RpSum(rs)
      bases == RpBases(PMul(U64Pow10(L.exp), H), rings, << >>)
      Ds    == [i \in 1..rings |-> PMul(FromNat(js[i]), bases[i])]
      C     == PAdd(SumPoints(Ds), PMul(L.minv, H))
      xs    == IF rings = 1 THEN << >> ELSE [i \in 1..(rings - 1) |-> X32(Ds[i])]
      signs == IF rings = 1 THEN << >> ELSE [i \in 1..(rings - 1) |-> IF IsSquare(Ds[i][2]) THEN 0 ELSE 1]
      sb    == IF RpSignBytes(rings) = 0 THEN << >> ELSE [b \in 1..RpSignBytes(rings) |-> RpPackBits(signs, 8 * (b - 1) + 1, 0)]
      m     == RpMsgHash(C, H, hb, signs, xs, extra)
      ss    == [p \in 1..nch |-> RfForged(p)]
      e0    == SignE0(m, RpKeys(Ds, bases, rs), ss, [i \in 1..rings |-> ss[4 * (i - 1) + js[i] + 1]], rs, js, 0, 0, << >>)
  IN  [ ok |-> e0[1], C |-> C, H |-> H, rs |-> rs, secidx |-> js,
        soff |-> Len(hb) + Len(sb) + 32 * (rings - 1) + 32, doff |-> Len(hb) + Len(sb),
        proof |-> hb \o sb \o (IF rings = 1 THEN << >> ELSE Flatten(xs)) \o e0[2] \o Flatten([p \in 1..nch |-> Scalar32(ss[p])]) ]

\* byte surgery on an assembled proof
RfSetBytes(b, off, x) == SubSeq(b, 1, off) \o x \o SubSeq(b, off + Len(x) + 1, Len(b))     \* overwrite behind offset off
RfScalarAt(f, p) == FromBytesBE(SubSeq(f.proof, f.soff + 32 * (p - 1) + 1, f.soff + 32 * p))
RfSetScalar(f, p, x) == RfSetBytes(f.proof, f.soff + 32 * (p - 1), ToBytesBE(x, 32))
\* flat positions of the forged members (everything but the true member of each ring)
RfForgedPos(f) == LET nch == RpSum(f.rs) IN
  SelectSeq([p \in 1..nch |-> p], LAMBDA p : f.secidx[((p - 1) \div 4) + 1] # (p - 1) % 4)
=============================================================================
