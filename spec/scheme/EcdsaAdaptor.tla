------------------------------- MODULE EcdsaAdaptor -------------------------------
(***************************************************************************)
(* Single-signer ECDSA adaptor signatures (L. Fournier, "One-Time          *)
(* Verifiably Encrypted Signatures"; DLC specification; the public header  *)
(* include/secp256k1_ecdsa_adaptor.h).  Signer key x (X = xG), encryption  *)
(* key Y = yG, message m (a 32-byte string read as an integer mod N).      *)
(*                                                                         *)
(*   adaptor signature = R || R' || s' || e || s_dleq          (162 bytes) *)
(*     R  = kY, R' = kG   33-byte compressed points                        *)
(*     s' = k^-1 (m + x(R) x)                    in [1, N-1]               *)
(*     (e, s_dleq) = DLEQ proof that log_G R' = log_Y R                     *)
(*   Verify   = DLEQ proof holds  /\  R' = s'^-1 (m G + x(R) X)            *)
(*   Decrypt  = (x(R) mod N, s'/y) normalised to low S                     *)
(*   Recover  = y with yG = Y from an ECDSA signature (r, s) with          *)
(*              r = x(R) mod N and s = +-s'/y; refuses anything else       *)
(***************************************************************************)
EXTENDS Ecdsa, Dleq

-----------------------------------------------------------------------------
\* the 162-byte codec.  Range rules: R, R' valid compressed points; x(R) mod N # 0 (it is the r of
\* the ECDSA signature); 1 <= s' < N; s_dleq < N; the challenge e is read modulo N (it is only ever
\* compared with a hash value reduced modulo N).
AdR32(a)  == SubSeq(a, 2, 33)
AdField(a, f) == CASE f = 1 -> SubSeq(a, 1, 33) [] f = 2 -> SubSeq(a, 34, 66) [] f = 3 -> SubSeq(a, 67, 98)
                   [] f = 4 -> SubSeq(a, 99, 130) [] f = 5 -> SubSeq(a, 131, 162)
AdSigR(a) == Mod(FromBytesBE(AdR32(a)), N)
AdSp(a)   == FromBytesBE(AdField(a, 3))
\* the two scalars Decrypt and Recover read: <<ok, r, s'>>
AdParseRS(a) == LET r == AdSigR(a)  sp == AdSp(a) IN << ~IsZero(r) /\ ValidSecret(sp), r, sp >>
\* full parse: [ok, R, Rp, r, sp, e, sd]
AdParse(a) ==
  LET pr == ParsePub(AdField(a, 1))  pp == ParsePub(AdField(a, 2))  rs == AdParseRS(a)
      sd == FromBytesBE(AdField(a, 5))
  IN  [ ok |-> pr[1] /\ pp[1] /\ rs[1] /\ Lt(sd, N), R |-> pr[2], Rp |-> pp[2], r |-> rs[2], sp |-> rs[3],
        e |-> Mod(FromBytesBE(AdField(a, 4)), N), sd |-> sd ]
AdSer(R, Rp, sp, e, sd) == Ser33(R) \o Ser33(Rp) \o Scalar32(sp) \o Scalar32(e) \o Scalar32(sd)

-----------------------------------------------------------------------------
\* Encrypted signing: <<ret, asig162>>; the output is all zero whenever ret = 0.
\* Fails iff the key is not in [1, N-1], a nonce request fails or yields 0 (mod N), or r = 0 or s' = 0.
AdEncrypt(key32, Y, msg32, src) ==
  LET ps == ParseSecret(key32)
      nn == AdaptorNonceOf(src, msg32, key32, Ser33(Y), TagEcdsaAdaptorNon)
      k  == IF nn[1] THEN Mod(FromBytesBE(nn[2]), N) ELSE Zero
      fail == << 0, Zeros(162) >>
  IN  IF ~nn[1] \/ IsZero(k) THEN fail
      ELSE LET R == PMul(k, Y)  Rp == PMulG(k)
               pf == DleqProve(k, Rp, Y, R, src)
               r  == Mod(R[1], N)
               sp == SMul(SInv(k), SAdd(MsgScalar(msg32), SMul(r, ps[2])))
           IN  IF ~pf[1] \/ ~ps[1] \/ IsZero(r) \/ IsZero(sp) THEN fail
               ELSE << 1, AdSer(R, Rp, sp, pf[2], pf[3]) >>

\* Adaptor verification for signer key X, encryption key Y (both valid points)
AdVerify(a, X, msg32, Y) ==
  LET p == AdParse(a) IN
  /\ p.ok
  /\ DleqVerify(p.e, p.sd, p.Rp, Y, p.R)
  /\ LET sn == SInv(p.sp)
         D  == PAdd(PMulG(SMul(sn, MsgScalar(msg32))), PMul(SMul(sn, p.r), X))
     IN  ~IsInf(D) /\ D = p.Rp

\* Decryption: <<ret, sigobj>>; zero object when ret = 0
AdDecrypt(deckey32, a) ==
  LET pd == ParseSecret(deckey32)  rs == AdParseRS(a) IN
  IF ~pd[1] \/ ~rs[1] THEN << 0, << Zero, Zero >> >>
  ELSE LET s == SMul(rs[3], SInv(pd[2])) IN << 1, << rs[2], IF IsHigh(s) THEN SNeg(s) ELSE s >> >>

\* Decryption-key recovery from an ECDSA signature object <<r, s>>: <<ret, y>>.
\* y = s'/s is a candidate; it is the answer if yG = Y, its negation is the answer if yG = -Y
\* (the published signature may be the low-S twin), otherwise the signature is unrelated.
AdRecover(obj, a, Y) ==
  LET rs == AdParseRS(a) IN
  IF ~rs[1] \/ rs[2] # obj[1] \/ IsZero(obj[2]) THEN << 0, Zero >>
  ELSE LET y == SMul(SInv(obj[2]), rs[3])  Yc == PMulG(y)
       IN  IF Yc = Y THEN << 1, y >>
           ELSE IF Yc = PNeg(Y) THEN << 1, SNeg(y) >>
           ELSE << 0, Zero >>
=============================================================================
