------------------------------- MODULE ShaStream -------------------------------
(***************************************************************************)
(* SHA-256 as a STREAM: a transcription (on purpose -- the property is     *)
(* about this buffering case analysis) of secp256k1_sha256_initialize /    *)
(* _write / _finalize (src/hash_impl.h) on top of the compression function *)
(* of Sha256.tla.  A stream object is                                      *)
(*   [s |-> chaining state, buf |-> bytes buffered (always bytes mod 64    *)
(*    of them), bytes |-> total written, blocks |-> blocks compressed,     *)
(*    calls |-> invocations of the compression callback by the last write] *)
(* The compression callback receives n_blocks contiguous blocks, so a      *)
(* write makes at most two calls: one for the completed buffer, one for    *)
(* all whole blocks taken directly from the input.                         *)
(* C05_Sha.tla lets TLC explore every chunk-length sequence and checks on  *)
(* this model that the digest equals the one-shot Sha256Hash.              *)
(***************************************************************************)
EXTENDS Hmac, Naturals, Sequences

ShsInit == [ s |-> ShaInit, buf |-> << >>, bytes |-> 0, blocks |-> 0, calls |-> 0 ]

ShsWrite(h, data) ==
  LET bufsize  == h.bytes % 64
      len      == Len(data)
      chunkLen == 64 - bufsize
      first    == bufsize # 0 /\ len >= chunkLen        \* "if we exceed the 64-byte block size with this input, process it"
      s1       == IF first THEN Sha256Compress(h.s, h.buf \o SubSeq(data, 1, chunkLen)) ELSE h.s
      d1       == IF first THEN SubSeq(data, chunkLen + 1, len) ELSE data
      buf1     == IF first THEN << >> ELSE h.buf
      nb       == Len(d1) \div 64                        \* "invoke compression directly on the input"
      s2       == IF nb > 0 THEN ShaAbsorb(s1, SubSeq(d1, 1, 64 * nb)) ELSE s1
      rest     == SubSeq(d1, 64 * nb + 1, Len(d1))       \* "fill the buffer with what remains"
  IN  [ s |-> s2, buf |-> buf1 \o rest, bytes |-> h.bytes + len,
        blocks |-> h.blocks + (IF first THEN 1 ELSE 0) + nb,
        calls |-> (IF first THEN 1 ELSE 0) + (IF nb > 0 THEN 1 ELSE 0) ]

\* finalize: write 0x80 00.. (1 + ((119 - bytes mod 64) mod 64) bytes), then the 8-byte bit length; output the state
ShsSizeDesc(n) == SubSeq(ShaPad(n), ShaPadLen(n) - 7, ShaPadLen(n))
ShsFinalize(h) ==
  LET padlen == 1 + ((119 - (h.bytes % 64)) % 64)
      h1 == ShsWrite(h, << 128 >> \o [j \in 1..(padlen - 1) |-> 0])
      h2 == ShsWrite(h1, ShsSizeDesc(h.bytes))
  IN  [ digest |-> ShaStateBytes(h2.s), blocks |-> h2.blocks, buffered |-> Len(h2.buf) ]

\* design-level invariants of a stream object that has absorbed the message prefix m
ShsWellFormed(h) == Len(h.buf) = h.bytes % 64 /\ h.blocks = h.bytes \div 64
ShsAgrees(h, m) == LET f == ShsFinalize(h) IN
  /\ f.digest = Sha256Hash(m)
  /\ f.buffered = 0
  /\ f.blocks = (Len(m) + ShaPadLen(Len(m))) \div 64

RECURSIVE ShsWriteAll(_, _, _, _)
ShsWriteAll(h, msg, chunks, off) ==
  IF Len(chunks) = 0 THEN h
  ELSE ShsWriteAll(ShsWrite(h, SubSeq(msg, off + 1, off + Head(chunks))), msg, Tail(chunks), off + Head(chunks))

\* messages by rule: byte i (0-based) = (pa * i + pb) mod 256
PatMsg(len, pa, pb) == [j \in 1..len |-> (pa * (j - 1) + pb) % 256]
MsgOf(i) == IF "msg" \in DOMAIN i THEN i.msg ELSE PatMsg(i.len, i.pa, i.pb)

\* ---- specified results of the hash records ------------------------------------------------
RECURSIVE ShsTrace(_, _, _, _, _, _)
ShsTrace(h, msg, chunks, off, calls, blocks) ==
  IF Len(chunks) = 0 THEN << h, calls, blocks >>
  ELSE LET h1 == ShsWrite(h, SubSeq(msg, off + 1, off + Head(chunks)))
       IN  ShsTrace(h1, msg, Tail(chunks), off + Head(chunks), Append(calls, h1.calls), Append(blocks, h1.blocks))
OutShaStream(i) ==
  LET m == MsgOf(i)  t == ShsTrace(ShsInit, m, i.chunks, 0, << >>, << >>)  f == ShsFinalize(t[1]) IN
  [ calls |-> t[2], blocks |-> t[3], fblocks |-> f.blocks - t[1].blocks, written |-> t[1].bytes,
    digest |-> Sha256Hash(SubSeq(m, 1, t[1].bytes)) ]
OutSha(i) == LET m == MsgOf(i)  d == Sha256Hash(m) IN
  [ digest |-> d, digest_default |-> d, blocks |-> (Len(m) + ShaPadLen(Len(m))) \div 64 ]
OutHmac(i) == [ mac |-> Hmac(i.key, MsgOf(i)) ]
RECURSIVE DrbgOuts(_, _)
DrbgOuts(st, lens) == IF Len(lens) = 0 THEN << >>
                      ELSE LET g == DrbgGenerate(st, Head(lens)) IN << g[1] >> \o DrbgOuts(g[2], Tail(lens))
OutDrbg(i) == [ outs |-> DrbgOuts(DrbgInit(i.seed), i.outlens) ]
OutTagged(i) == [ ret |-> 1, hash |-> TagHash(i.tag, MsgOf(i)) ]
=============================================================================
