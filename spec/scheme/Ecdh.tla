------------------------------- MODULE Ecdh -------------------------------
(***************************************************************************)
(* secp256k1_ecdh from include/secp256k1_ecdh.h: the shared point is       *)
(* secret * Point by the group law; the result is the chosen hash of its   *)
(* coordinates; the call fails iff the secret is 0 or >= n, or the hash    *)
(* callback fails.                                                         *)
(* Hash choices (small integers, as the harness encodes them):             *)
(*   0 = NULL (default), 1 = secp256k1_ecdh_hash_function_sha256,          *)
(*   2 = secp256k1_ecdh_hash_function_default                              *)
(*        -- all three: SHA256(0x02 | 0x03 (parity of y) || x)             *)
(*   3 = caller-supplied callback returning x || y (64 bytes)              *)
(*   4 = caller-supplied callback that fails                               *)
(***************************************************************************)
EXTENDS Curve, Sha256

EcdhSecretOk(secret32) == LET s == FromBytesBE(secret32) IN ~IsZero(s) /\ Lt(s, N)
EcdhPoint(Q, secret32) == PMul(FromBytesBE(secret32), Q)
EcdhHashSha256(S) == Sha256Hash(Ser33(S))
EcdhHashOk(hash) == hash \in { 0, 1, 2, 3 }
EcdhHash(S, hash) == IF hash = 3 THEN X32(S) \o Y32(S) ELSE EcdhHashSha256(S)

\* <<ret, output>>; the output is specified on success only
Ecdh(Q, secret32, hash) ==
  IF ~EcdhSecretOk(secret32) \/ ~EcdhHashOk(hash) THEN << 0, << >> >>
  ELSE << 1, EcdhHash(EcdhPoint(Q, secret32), hash) >>
=============================================================================
