------------------------------- MODULE Surjection -------------------------------
(***************************************************************************)
(* Asset surjection proofs (src/modules/surjection/surjection.md,          *)
(* include/secp256k1_surjectionproof.h).                                    *)
(*                                                                         *)
(* A proof is (n, bitmap, e0, s_1 .. s_k): n = number of input asset        *)
(* commitments, bitmap = which k of them are in the anonymity set, and a    *)
(* one-ring Borromean signature over the keys  output - input_i  (i used),  *)
(* message = SHA256(ser33(input_0) .. ser33(input_{n-1}) ser33(output)).    *)
(* Serialized: n as 2 bytes little-endian, ceil(n/8) bitmap bytes (bit i of *)
(* the bitmap = bit (i mod 8) of byte (i div 8)), then 32(1+k) bytes.       *)
(*                                                                         *)
(* Written from the module documentation and header, EXCEPT the two parts   *)
(* marked TRANSCRIBED (subset selection from the seed, derivation of the    *)
(* nonce / forged scalars): there the C control flow is the definition.     *)
(***************************************************************************)
EXTENDS Borromean, FiniteSets

SjMaxInputs == 256      \* SECP256K1_SURJECTIONPROOF_MAX_N_INPUTS
SjMaxUsed   == 256      \* SECP256K1_SURJECTIONPROOF_MAX_USED_INPUTS

\* ---- generators (ephemeral asset tags) travel as 33 bytes: 10/11 || x, 10 = y is a square ----------
SjParseGen(b) ==
  IF Len(b) = 33 /\ b[1] \in {10, 11}
  THEN LET l == LiftXQuad(FromBytesBE(SubSeq(b, 2, 33)))
       IN  IF l[1] THEN << TRUE, IF b[1] = 11 THEN PNeg(l[2]) ELSE l[2] >> ELSE l
  ELSE << FALSE, Inf >>
SjSerGen(Q) == << IF IsSquare(Q[2]) THEN 10 ELSE 11 >> \o X32(Q)

\* ---- the serialized language ----------------------------------------------------------------------
SjBitmapLen(n) == (n + 7) \div 8
SjBit(bm, i) == (bm[(i \div 8) + 1] \div (2 ^ (i % 8))) % 2          \* i 0-based
RECURSIVE SjPop8(_)
SjPop8(x) == IF x = 0 THEN 0 ELSE (x % 2) + SjPop8(x \div 2)
RECURSIVE SjPopFrom(_, _)
SjPopFrom(bm, k) == IF k > Len(bm) THEN 0 ELSE SjPop8(bm[k]) + SjPopFrom(bm, k + 1)
SjPopcount(bm) == SjPopFrom(bm, 1)
SjFieldN(b) == b[1] + 256 * b[2]                                     \* little-endian count field

\* exactly the canonical strings: count <= 256, no bit set at a position >= n, exact length
SjWellFormed(b) ==
  /\ Len(b) >= 2
  /\ LET n == SjFieldN(b)  bl == SjBitmapLen(n) IN
     /\ n <= SjMaxInputs
     /\ Len(b) >= 2 + bl
     /\ LET bm == SubSeq(b, 3, 2 + bl) IN
        /\ \A i \in n..(8 * bl - 1) : SjBit(bm, i) = 0
        /\ Len(b) = 2 + bl + 32 * (1 + SjPopcount(bm))
SjNone == [ ok |-> FALSE, n |-> 0, bitmap |-> << >>, data |-> << >> ]
SjParse(b) ==
  IF ~SjWellFormed(b) THEN SjNone
  ELSE LET n == SjFieldN(b)  bl == SjBitmapLen(n) IN
       [ ok |-> TRUE, n |-> n, bitmap |-> SubSeq(b, 3, 2 + bl), data |-> SubSeq(b, 3 + bl, Len(b)) ]
SjSerialize(n, bm, data) == << n % 256, n \div 256 >> \o bm \o data

\* used input numbers (0-based, ascending) of a bitmap, and the bitmap of a set of input numbers
SjUsed(n, bm) == SelectSeq([i \in 1..n |-> i - 1], LAMBDA i : SjBit(bm, i) = 1)
SjW(used, i, w) == IF i \in used THEN w ELSE 0
SjBitmapOf(n, used) ==
  [k \in 1..SjBitmapLen(n) |->
     LET b0 == 8 * (k - 1) IN
     SjW(used, b0, 1) + SjW(used, b0 + 1, 2) + SjW(used, b0 + 2, 4) + SjW(used, b0 + 3, 8)
     + SjW(used, b0 + 4, 16) + SjW(used, b0 + 5, 32) + SjW(used, b0 + 6, 64) + SjW(used, b0 + 7, 128)]
SjScalar(data, i) == FromBytesBE(SubSeq(data, 32 * i + 1, 32 * i + 32))   \* i = 1..k

\* ---- Initialize: TRANSCRIBED from main_impl.h (csprng_init/_next, surjectionproof_initialize) ------
\* The generator state is (32 bytes, position).  The seed itself is the first state; one byte per
\* sample while rand_max <= 256 (two, big-endian, above); the state is replaced by its SHA-256 when
\* position + increment >= 32 (so byte 31 of a state is never consumed); samples >= the largest
\* multiple of rand_max are rejected; result = sample mod rand_max.  Returns <<value, state, pos>>.
RECURSIVE SjRngNext(_, _, _)
SjRngNext(state, si, randmax) ==
  LET inc     == IF randmax > 256 THEN 2 ELSE 1
      range   == IF randmax > 256 THEN 65535 ELSE 255
      limit   == ((range + 1) \div randmax) * randmax
      refresh == si + inc >= 32
      st1     == IF refresh THEN Sha256Hash(state) ELSE state
      i1      == IF refresh THEN 0 ELSE si
      val     == IF inc > 1 THEN st1[i1 + 1] * 256 + st1[i1 + 2] ELSE st1[i1 + 1]
  IN  IF val < limit THEN << val % randmax, st1, i1 + inc >>
      ELSE SjRngNext(st1, i1 + inc, randmax)

\* one candidate subset: draw until `todo` NEW input numbers are marked.  Every draw (also a repeated
\* one) that hits an input equal to the output records that input number.  hit = <<found, number>>.
\* matches[i+1] <=> input tag i equals the output tag.
RECURSIVE SjPick(_, _, _, _, _, _, _)
SjPick(matches, n, todo, used, state, si, hit) ==
  IF todo = 0 THEN << used, state, si, hit >>
  ELSE LET r    == SjRngNext(state, si, n)
           x    == r[1]
           hit1 == IF matches[x + 1] THEN << TRUE, x >> ELSE hit
       IN  IF x \in used THEN SjPick(matches, n, todo, used, r[2], r[3], hit1)
           ELSE SjPick(matches, n, todo - 1, used \cup {x}, r[2], r[3], hit1)

\* repeat with a fresh (empty) subset until one contains a match or the iteration limit is reached;
\* the limit is tested AFTER an iteration, so limits 0 and 1 both mean one iteration.
RECURSIVE SjIterate(_, _, _, _, _, _, _)
SjIterate(matches, n, nuse, maxiter, state, si, done) ==
  LET p  == SjPick(matches, n, nuse, {}, state, si, << FALSE, 0 >>)
      it == done + 1
  IN  IF p[4][1] THEN [ ret |-> it, idx |-> p[4][2], used |-> p[1] ]
      ELSE IF it >= maxiter THEN [ ret |-> 0, idx |-> 0, used |-> p[1] ]
      ELSE SjIterate(matches, n, nuse, maxiter, p[2], p[3], it)

\* ret = number of iterations (0 = gave up), idx = the matching input, used = the selected subset.
\* Preconditions (the API's documented argument rules): n <= 256, nuse <= 256, nuse <= n.
SjInitialize(matches, n, nuse, maxiter, seed32) == SjIterate(matches, n, nuse, maxiter, seed32, 0, 0)

\* ---- ring and message -----------------------------------------------------------------------------
SjRingKeys(ins, out, used) == [j \in 1..Len(used) |-> PSub(out, ins[used[j] + 1])]
SjMsg(ins, out) == Sha256Hash(Flatten([i \in 1..Len(ins) |-> Ser33(ins[i])]) \o Ser33(out))

\* ---- Verify ---------------------------------------------------------------------------------------
\* 1 exactly when: at least one input selected, the tag list has the length the proof states, every
\* scalar is in [1, N), no selected input equals the output, and the ring equation holds.
SjVerify(n, bm, data, ins, out) ==
  LET used == SjUsed(n, bm)  k == Len(used) IN
  /\ k >= 1 /\ k <= SjMaxUsed
  /\ n = Len(ins)
  /\ Len(data) = 32 * (1 + k)
  /\ \A i \in 1..k : LET s == SjScalar(data, i) IN ~IsZero(s) /\ Lt(s, N)
  /\ \A j \in 1..k : ins[used[j] + 1] # out
  /\ BorVerify(SubSeq(data, 1, 32), [i \in 1..k |-> SjScalar(data, i)],
               SjRingKeys(ins, out, used), << k >>, SjMsg(ins, out))[1]

\* ---- Generate -------------------------------------------------------------------------------------
\* TRANSCRIBED (surjection_genrand): scalar i = SHA256 of a 36-byte buffer = i as 4 bytes little-endian
\* followed by 32 bytes that initially hold the secret; the digest is written over the first 32 bytes
\* of the SAME buffer, so from i = 1 on the 32 bytes are digest[4..31] || secret[28..31].
\* A digest >= N makes generation fail.  <<ok, scalars>>
SjLE32(i) == << i % 256, (i \div 256) % 256, (i \div 65536) % 256, (i \div 16777216) % 256 >>
RECURSIVE SjRandFrom(_, _, _, _)
SjRandFrom(i, ns, tail, acc) ==
  IF i = ns THEN << TRUE, acc >>
  ELSE LET h == Sha256Hash(SjLE32(i) \o tail)  s == FromBytesBE(h) IN
       IF ~Lt(s, N) THEN << FALSE, acc >>
       ELSE SjRandFrom(i + 1, ns, SubSeq(h, 5, 32) \o SubSeq(tail, 29, 32), Append(acc, s))
SjGenRand(sec32, ns) == SjRandFrom(0, ns, sec32, << >>)

SjPos(used, x) == IF \E j \in 1..Len(used) : used[j] = x
                  THEN (CHOOSE j \in 1..Len(used) : used[j] = x) - 1 ELSE Len(used)   \* 0-based; Len(used) = absent

\* does the key difference d open the difference between the output and input j (0-based)?
SjOpens(ins, out, D, j) == j < Len(ins) /\ PAdd(ins[j + 1], D) = out

\* st: "illegal" (empty selection: documented misuse, the illegal callback fires), "refuse" (returns 0),
\* "ok"/"fail" with the signature when the claimed input is selected and the keys open its difference
\* (fail only on a cryptographically unreachable hash value).  Otherwise nothing is promised about the
\* return value: "nowitness" when the key difference opens NO selected input (then no proof verifying for
\* these tags can come out), "unspecified" when it happens to open another selected one.
SjGenerate(n, bm, ins, out, index, inkey32, outkey32) ==
  LET used == SjUsed(n, bm)  k == Len(used)
      ki == FromBytesBE(inkey32)  ko == FromBytesBE(outkey32)
      D == PMulG(SSub(ko, ki)) IN
  IF k = 0 THEN [ st |-> "illegal", data |-> << >> ]
  ELSE IF ~Lt(ki, N) \/ ~Lt(ko, N) THEN [ st |-> "refuse", data |-> << >> ]
  ELSE IF \E i \in 1..Len(ins) : ins[i] = out THEN [ st |-> "refuse", data |-> << >> ]
  ELSE IF n # Len(ins) THEN [ st |-> "refuse", data |-> << >> ]
  ELSE IF SjPos(used, index) = k \/ ~SjOpens(ins, out, D, index)
       THEN [ st |-> IF \E j \in 1..k : SjOpens(ins, out, D, used[j]) THEN "unspecified" ELSE "nowitness", data |-> << >> ]
  ELSE LET sec == SSub(ko, ki)
           pos == SjPos(used, index)
           rnd == SjGenRand(Scalar32(sec), k) IN
       IF ~rnd[1] THEN [ st |-> "fail", data |-> << >> ]
       ELSE LET b == BorSign(SjRingKeys(ins, out, used), [rnd[2] EXCEPT ![pos + 1] = Zero],
                             << rnd[2][pos + 1] >>, << sec >>, << k >>, << pos >>, SjMsg(ins, out)) IN
            IF ~b[1] THEN [ st |-> "fail", data |-> << >> ]
            ELSE [ st |-> "ok", data |-> b[2] \o Flatten([i \in 1..k |-> Scalar32(b[3][i])]) ]
=============================================================================
