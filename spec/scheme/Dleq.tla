------------------------------- MODULE Dleq -------------------------------
(***************************************************************************)
(* Discrete-logarithm-equality proofs of the ECDSA adaptor scheme (DLC     *)
(* specification, "ECDSA adaptor signatures"):  a proof (e, s) that        *)
(* log_G(P1) = log_Y(P2).  Written on Curve; hashes are BIP-340 style      *)
(* tagged hashes computed from the tag strings.                            *)
(*                                                                         *)
(* Nonce sources (shared with EcdsaAdaptor):                               *)
(*   << "def", aux >>            the module's nonce function, aux = << >>  *)
(*                               when no auxiliary randomness is given     *)
(*   << "two", ok1, k1, ok2, k2 >>  a caller-supplied function: answers    *)
(*                               requests for the adaptor nonce with k1    *)
(*                               (fails if ~ok1) and requests for the DLEQ *)
(*                               nonce with k2 (fails if ~ok2)             *)
(***************************************************************************)
EXTENDS Curve, Hmac, Tags

\* secp256k1_nonce_function_ecdsa_adaptor: BIP-340 nonce derivation with the 33-byte compressed
\* key and the hash tagged with algo;  t = key xor H_aux(aux) when aux is present
AdaptorNonceFn(msg32, key32, pk33, algo, aux) ==
  LET t == IF Len(aux) = 0 THEN key32 ELSE BXor(key32, TagHash(TagEcdsaAdaptorAux, aux))
  IN  TagHash(algo, t \o pk33 \o msg32)

\* <<ok, nonce32>> for a request with algorithm tag algo
AdaptorNonceOf(src, msg32, key32, pk33, algo) ==
  IF src[1] = "def" THEN << TRUE, AdaptorNonceFn(msg32, key32, pk33, algo, src[2]) >>
  ELSE IF algo = TagDleq THEN << src[4], src[5] >>
  ELSE << src[2], src[3] >>

DleqChallenge(P1, Y, P2, R1, R2) ==
  Mod(FromBytesBE(TagHash(TagDleq, Ser33(P1) \o Ser33(Y) \o Ser33(P2) \o Ser33(R1) \o Ser33(R2))), N)

\* prover: witness sk with P1 = sk*G, P2 = sk*Y.  <<ok, e, s>>; fails iff the nonce source fails or yields 0 (mod N)
DleqProve(sk, P1, Y, P2, src) ==
  LET nn == AdaptorNonceOf(src, Sha256Hash(Ser33(P1) \o Ser33(P2)), Scalar32(sk), Ser33(Y), TagDleq)
      k  == IF nn[1] THEN Mod(FromBytesBE(nn[2]), N) ELSE Zero
  IN  IF ~nn[1] \/ IsZero(k) THEN << FALSE, Zero, Zero >>
      ELSE LET e == DleqChallenge(P1, Y, P2, PMulG(k), PMul(k, Y))
           IN  << TRUE, e, SAdd(k, SMul(e, sk)) >>

\* verifier: e, s scalars below N
DleqVerify(e, s, P1, Y, P2) ==
  LET R1 == PSub(PMulG(s), PMul(e, P1))
      R2 == PSub(PMul(s, Y), PMul(e, P2))
  IN  ~IsInf(R1) /\ ~IsInf(R2) /\ DleqChallenge(P1, Y, P2, R1, R2) = e
=============================================================================
