------------------------------- MODULE HalfAgg -------------------------------
(***************************************************************************)
(* Half-aggregation of BIP-340 signatures, written from the draft BIP      *)
(* ("Half-Aggregation of BIP 340 signatures", cross-input-aggregation      *)
(* repository) as the library implements it (32-byte messages, no 2^16     *)
(* bound on the count).                                                    *)
(*                                                                         *)
(*  z_0 = 1,  z_i = int(hash_{HalfAgg/randomizer}(r_0 || pk_0 || m_0 ||    *)
(*                    ... || r_i || pk_i || m_i)) mod n      (i >= 1)      *)
(*  IncAggregate(aggsig, pm_0..v-1, (pk,m,sig)_v..v+u-1):                  *)
(*       fail if len(aggsig) # 32(v+1);                                    *)
(*       s = int(aggsig[32v:32(v+1)]) + sum z_i * s_i mod n;               *)
(*       return r_0 || ... || r_{v+u-1} || bytes(s)                        *)
(*  Aggregate(...) = IncAggregate(bytes(0), (), ...)                       *)
(*  VerifyAggregate: len = 32(u+1); P_i = lift_x(pk_i), R_i = lift_x(r_i); *)
(*       s < n;  s*G = sum z_i * (R_i + e_i * P_i)                         *)
(* Sequences are 1-based here: index i of the text is i+1 below.           *)
(***************************************************************************)
EXTENDS Bip340

\* r_1 || pk_1 || m_1 || ... || r_i || pk_i || m_i
RECURSIVE HaTranscript(_, _, _, _)
HaTranscript(rs, pks, ms, i) ==
  IF i = 0 THEN << >> ELSE HaTranscript(rs, pks, ms, i - 1) \o rs[i] \o pks[i] \o ms[i]

\* randomizer of the i-th triple (1-based); the first one is 1
HaZ(rs, pks, ms, i) ==
  IF i = 1 THEN One
  ELSE Mod(FromBytesBE(TagHash(TagHalfAggRandomizer, HaTranscript(rs, pks, ms, i))), N)

HaAggR(aggsig, v) == [i \in 1..v |-> SubSeq(aggsig, 32 * (i - 1) + 1, 32 * i)]
HaAggS(aggsig, v) == FromBytesBE(SubSeq(aggsig, 32 * v + 1, 32 * v + 32))

\* acc + sum_{j = i .. Len(pks)} z_j * s_j  (mod n), s_j taken from newsigs[j - v]
RECURSIVE HaSumS(_, _, _, _, _, _, _)
HaSumS(rs, pks, ms, newsigs, v, i, acc) ==
  IF i > Len(pks) THEN acc
  ELSE HaSumS(rs, pks, ms, newsigs, v, i + 1,
              SAdd(acc, SMul(HaZ(rs, pks, ms, i), FromBytesBE(SubSeq(newsigs[i - v], 33, 64)))))

\* IncAggregate: pks, ms are ALL (v + u) keys and messages, newsigs the u new 64-byte signatures,
\* aggsig the aggregate of the first v = Len(pks) - Len(newsigs).  Returns <<ok, aggsig'>>.
IncAggregate(aggsig, pks, ms, newsigs) ==
  LET u == Len(newsigs)  v == Len(pks) - u IN
  IF v < 0 \/ Len(ms) # Len(pks) \/ Len(aggsig) # 32 * (v + 1) THEN << FALSE, << >> >>
  ELSE LET rs == [i \in 1..(v + u) |-> IF i <= v THEN SubSeq(aggsig, 32 * (i - 1) + 1, 32 * i)
                                                 ELSE SubSeq(newsigs[i - v], 1, 32)]
           s  == HaSumS(rs, pks, ms, newsigs, v, v + 1, Mod(HaAggS(aggsig, v), N))
       IN  << TRUE, Flatten(rs) \o Scalar32(s) >>

Aggregate(pks, ms, sigs) == IncAggregate(Zeros(32), pks, ms, sigs)

\* sum_{j = i .. u} z_j * (R_j + e_j * P_j)
RECURSIVE HaSumT(_, _, _, _, _, _)
HaSumT(rs, pks, ms, Rs, Ps, i) ==
  IF i > Len(pks) THEN Inf
  ELSE PAdd(PMul(HaZ(rs, pks, ms, i), PAdd(Rs[i], PMul(Challenge(rs[i], pks[i], ms[i]), Ps[i]))),
            HaSumT(rs, pks, ms, Rs, Ps, i + 1))

AggVerify(pks, ms, aggsig) ==
  LET u == Len(pks) IN
  /\ Len(ms) = u
  /\ Len(aggsig) = 32 * (u + 1)
  /\ LET rs == HaAggR(aggsig, u)
         s  == HaAggS(aggsig, u)
         Pl == [i \in 1..u |-> LiftX(FromBytesBE(pks[i]))]
         Rl == [i \in 1..u |-> LiftX(FromBytesBE(rs[i]))]
     IN  /\ \A i \in 1..u : Pl[i][1] /\ Rl[i][1]
         /\ Lt(s, N)
         /\ PMulG(s) = HaSumT(rs, pks, ms, [i \in 1..u |-> Rl[i][2]], [i \in 1..u |-> Pl[i][2]], 1)
=============================================================================
