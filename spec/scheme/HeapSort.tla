------------------------------- MODULE HeapSort -------------------------------
(***************************************************************************)
(* PlusCal transcription of src/hsort_impl.h (secp256k1_hsort /            *)
(* secp256k1_heap_down).  This module IS a transcription on purpose: the   *)
(* property "sorting returns a sorted permutation for every length" is     *)
(* about this algorithm.  C indices are kept (0-based); element k of the C *)
(* array is arr[k+1].  cmp is the order on Keys (integers), ncmp counts    *)
(* the calls of the comparison callback (observable in C through the       *)
(* callback's data pointer), so that the transcription itself is bound to  *)
(* the C code (harness op HsortInts); nswap counts swaps (model only).     *)
(*                                                                         *)
(* TLC checks over ALL arrays of length 0..MaxLen over Keys:               *)
(*   Permutation  the array is always a rearrangement of the input         *)
(*   HeapInv      the loop invariants stated in the C comments             *)
(*   SortedAtEnd  on termination the array is sorted                       *)
(*   Termination  every run terminates                                     *)
(***************************************************************************)
EXTENDS Naturals, Sequences, FiniteSets, TLC, Verif
CONSTANTS Keys, MaxLen

HsArrays == UNION { [1..n -> Keys] : n \in 0..MaxLen }
Child1(k) == 2 * k + 1
Child2(k) == 2 * k + 2
HsSwap(a, j, k) == [a EXCEPT ![j + 1] = a[k + 1], ![k + 1] = a[j + 1]]
HsCount(a, v) == Cardinality({ j \in 1..Len(a) : a[j] = v })
HsSameBag(a, b) == Len(a) = Len(b) /\ \A v \in Keys : HsCount(a, v) = HsCount(b, v)
HsSorted(a) == \A j \in 1..(Len(a) - 1) : a[j] <= a[j + 1]
\* C index k (below size) dominates its children (below size)
HsHeapAt(a, k, size) == /\ (Child1(k) < size => a[Child1(k) + 1] <= a[k + 1])
                        /\ (Child2(k) < size => a[Child2(k) + 1] <= a[k + 1])

(* --fair algorithm HeapSort {
  variables arr0 \in HsArrays, arr = arr0, count = Len(arr0), i = 0, ncmp = 0, nswap = 0;

  \* secp256k1_heap_down(arr, hi, heap_size, ...)
  procedure heap_down(hi, heap_size) {
   hd_loop:
    while (hi < heap_size \div 2) {
      if (Child2(hi) < heap_size /\ arr[Child2(hi) + 1] >= arr[Child1(hi) + 1]) {
        \* 0 <= cmp(child2, child1) was evaluated (one call), now 0 < cmp(child2, i)
        ncmp := ncmp + 2;
        if (arr[Child2(hi) + 1] > arr[hi + 1]) {
          arr := HsSwap(arr, hi, Child2(hi)); nswap := nswap + 1;
          hi := Child2(hi);
        } else {
          return;
        }
      } else {
        \* the first comparison is made only when child2 exists (&& short circuit); then cmp(child1, i)
        ncmp := ncmp + (IF Child2(hi) < heap_size THEN 2 ELSE 1);
        if (arr[Child1(hi) + 1] > arr[hi + 1]) {
          arr := HsSwap(arr, hi, Child1(hi)); nswap := nswap + 1;
          hi := Child1(hi);
        } else {
          return;
        }
      }
    };
   hd_ret:
    return;
  }

  \* secp256k1_hsort(ptr, count, ...)
  {
   build:
    i := count \div 2;
   b_loop:
    while (0 < i) {
      call heap_down(i - 1, count);
     b_dec:
      i := i - 1;
    };
   s_init:
    i := count;
   s_loop:
    while (1 < i) {
      arr := HsSwap(arr, 0, i - 1); nswap := nswap + 1;   \* extract the largest value from the heap
      call heap_down(0, i - 1);                             \* repair the heap condition
     s_dec:
      i := i - 1;
    };
  }
} *)
\* BEGIN TRANSLATION
CONSTANT defaultInitValue
VARIABLES pc, arr0, arr, count, i, ncmp, nswap, stack, hi, heap_size

vars == << pc, arr0, arr, count, i, ncmp, nswap, stack, hi, heap_size >>

Init == (* Global variables *)
        /\ arr0 \in HsArrays
        /\ arr = arr0
        /\ count = Len(arr0)
        /\ i = 0
        /\ ncmp = 0
        /\ nswap = 0
        (* Procedure heap_down *)
        /\ hi = defaultInitValue
        /\ heap_size = defaultInitValue
        /\ stack = << >>
        /\ pc = "build"

hd_loop == /\ pc = "hd_loop"
           /\ IF hi < heap_size \div 2
                 THEN /\ IF Child2(hi) < heap_size /\ arr[Child2(hi) + 1] >= arr[Child1(hi) + 1]
                            THEN /\ ncmp' = ncmp + 2
                                 /\ IF arr[Child2(hi) + 1] > arr[hi + 1]
                                       THEN /\ arr' = HsSwap(arr, hi, Child2(hi))
                                            /\ nswap' = nswap + 1
                                            /\ hi' = Child2(hi)
                                            /\ pc' = "hd_loop"
                                            /\ UNCHANGED << stack, heap_size >>
                                       ELSE /\ pc' = Head(stack).pc
                                            /\ hi' = Head(stack).hi
                                            /\ heap_size' = Head(stack).heap_size
                                            /\ stack' = Tail(stack)
                                            /\ UNCHANGED << arr, nswap >>
                            ELSE /\ ncmp' = ncmp + (IF Child2(hi) < heap_size THEN 2 ELSE 1)
                                 /\ IF arr[Child1(hi) + 1] > arr[hi + 1]
                                       THEN /\ arr' = HsSwap(arr, hi, Child1(hi))
                                            /\ nswap' = nswap + 1
                                            /\ hi' = Child1(hi)
                                            /\ pc' = "hd_loop"
                                            /\ UNCHANGED << stack, heap_size >>
                                       ELSE /\ pc' = Head(stack).pc
                                            /\ hi' = Head(stack).hi
                                            /\ heap_size' = Head(stack).heap_size
                                            /\ stack' = Tail(stack)
                                            /\ UNCHANGED << arr, nswap >>
                 ELSE /\ pc' = "hd_ret"
                      /\ UNCHANGED << arr, ncmp, nswap, stack, hi, heap_size >>
           /\ UNCHANGED << arr0, count, i >>

hd_ret == /\ pc = "hd_ret"
          /\ pc' = Head(stack).pc
          /\ hi' = Head(stack).hi
          /\ heap_size' = Head(stack).heap_size
          /\ stack' = Tail(stack)
          /\ UNCHANGED << arr0, arr, count, i, ncmp, nswap >>

heap_down == hd_loop \/ hd_ret

build == /\ pc = "build"
         /\ i' = (count \div 2)
         /\ pc' = "b_loop"
         /\ UNCHANGED << arr0, arr, count, ncmp, nswap, stack, hi, heap_size >>

b_loop == /\ pc = "b_loop"
          /\ IF 0 < i
                THEN /\ /\ heap_size' = count
                        /\ hi' = i - 1
                        /\ stack' = << [ procedure |->  "heap_down",
                                         pc        |->  "b_dec",
                                         hi        |->  hi,
                                         heap_size |->  heap_size ] >>
                                     \o stack
                     /\ pc' = "hd_loop"
                ELSE /\ pc' = "s_init"
                     /\ UNCHANGED << stack, hi, heap_size >>
          /\ UNCHANGED << arr0, arr, count, i, ncmp, nswap >>

b_dec == /\ pc = "b_dec"
         /\ i' = i - 1
         /\ pc' = "b_loop"
         /\ UNCHANGED << arr0, arr, count, ncmp, nswap, stack, hi, heap_size >>

s_init == /\ pc = "s_init"
          /\ i' = count
          /\ pc' = "s_loop"
          /\ UNCHANGED << arr0, arr, count, ncmp, nswap, stack, hi, heap_size >>

s_loop == /\ pc = "s_loop"
          /\ IF 1 < i
                THEN /\ arr' = HsSwap(arr, 0, i - 1)
                     /\ nswap' = nswap + 1
                     /\ /\ heap_size' = i - 1
                        /\ hi' = 0
                        /\ stack' = << [ procedure |->  "heap_down",
                                         pc        |->  "s_dec",
                                         hi        |->  hi,
                                         heap_size |->  heap_size ] >>
                                     \o stack
                     /\ pc' = "hd_loop"
                ELSE /\ pc' = "Done"
                     /\ UNCHANGED << arr, nswap, stack, hi, heap_size >>
          /\ UNCHANGED << arr0, count, i, ncmp >>

s_dec == /\ pc = "s_dec"
         /\ i' = i - 1
         /\ pc' = "s_loop"
         /\ UNCHANGED << arr0, arr, count, ncmp, nswap, stack, hi, heap_size >>

(* Allow infinite stuttering to prevent deadlock on termination. *)
Terminating == pc = "Done" /\ UNCHANGED vars

Next == heap_down \/ build \/ b_loop \/ b_dec \/ s_init \/ s_loop \/ s_dec
           \/ Terminating

Spec == /\ Init /\ [][Next]_vars
        /\ WF_vars(Next)

Termination == <>(pc = "Done")

\* END TRANSLATION

-----------------------------------------------------------------------------
Permutation == HsSameBag(arr, arr0)
SortedAtEnd == pc = "Done" => HsSorted(arr) /\ HsSameBag(arr, arr0)
\* loop invariants of the C comments, at the heads of the two outer loops
HeapInv ==
  /\ pc = "b_loop" => \A k \in i..(count - 1) : HsHeapAt(arr, k, count)          \* indices >= i satisfy the max-heap property
  /\ pc = "s_loop" /\ i >= 1 =>
        /\ \A k \in 0..(i - 1) : HsHeapAt(arr, k, i)                              \* arr[0..i) is a heap
        /\ \A k \in i..(count - 1) : \A j \in 0..(k - 1) : arr[j + 1] <= arr[k + 1]   \* arr[i..count) is final: sorted and above the heap
Bounded == ncmp <= 2 * count * (count + 2) /\ nswap <= count * (count + 2)
\* one record per input array for the binding to secp256k1_hsort (harness op HsortInts)
HsEmit == pc = "Done" => EmitRecord([ e |-> "HsortInts", in |-> [ arr |-> arr0 ],
                                      out |-> [ sorted |-> arr, ncmp |-> ncmp ] ])
=============================================================================
