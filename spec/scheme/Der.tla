------------------------------- MODULE Der -------------------------------
(***************************************************************************)
(* The DER encoding of an ECDSA signature (SEC 1 C.5 / X.690):             *)
(*     ECDSA-Sig-Value ::= SEQUENCE { r INTEGER, s INTEGER }               *)
(* The accepted LANGUAGE is defined declaratively as the image of the      *)
(* encoding function: a byte string is strict DER iff it equals            *)
(* DerSigOf(rc, sc) for two minimal two's-complement contents rc, sc.      *)
(* Since rc and sc are substrings of the encoding, the existential         *)
(* quantifier ranges over finitely many candidates and TLC evaluates the   *)
(* definition as it stands.  Nothing here is taken from the C reader.      *)
(* DerRead* further down is a second, operational definition (a left-to-   *)
(* right reader written from X.690 8.1.3 / 8.3 / 10.1); the API machine    *)
(* checks as a design-level theorem that both recognise the same language. *)
(***************************************************************************)
EXTENDS Curve

\* X.690 8.1.3 + 10.1: definite length octets in the minimal form
RECURSIVE DerBase256(_)
DerBase256(n) == IF n < 256 THEN << n >> ELSE DerBase256(n \div 256) \o << n % 256 >>
DerLen(n) == IF n < 128 THEN << n >> ELSE LET m == DerBase256(n) IN << 128 + Len(m) >> \o m
DerTLV(tag, c) == << tag >> \o DerLen(Len(c)) \o c
DerTlvSize(l) == 1 + Len(DerLen(l)) + l

\* X.690 8.3: INTEGER contents are at least one octet, two's complement, and the first nine bits
\* are neither all zero nor all one
DerIntMinimal(c) ==
  /\ Len(c) >= 1
  /\ ~(Len(c) > 1 /\ c[1] = 0   /\ c[2] < 128)
  /\ ~(Len(c) > 1 /\ c[1] = 255 /\ c[2] >= 128)

DerSigOf(rc, sc) == DerTLV(48, DerTLV(2, rc) \o DerTLV(2, sc))

\* b = DerSigOf(rc, sc) with Len(rc) = l1, Len(sc) = l2 (the contents are then substrings of b)
DerContents(b, l1, l2) ==
  LET tot == DerTlvSize(l1) + DerTlvSize(l2)
      o1  == 1 + Len(DerLen(tot)) + 1 + Len(DerLen(l1))       \* octets in front of rc
      o2  == o1 + l1 + 1 + Len(DerLen(l2))                     \* octets in front of sc
  IN  << SubSeq(b, o1 + 1, o1 + l1), SubSeq(b, o2 + 1, o2 + l2) >>
DerMatch(b, l1, l2) ==
  /\ 1 + Len(DerLen(DerTlvSize(l1) + DerTlvSize(l2))) + DerTlvSize(l1) + DerTlvSize(l2) = Len(b)
  /\ LET c == DerContents(b, l1, l2)
     IN  b = DerSigOf(c[1], c[2]) /\ DerIntMinimal(c[1]) /\ DerIntMinimal(c[2])
\* all <<l1, l2>> for which b is an encoding.  The three headers take between 6 and 12 octets for
\* strings shorter than 65536 octets, which bounds l2 for a given l1.
DerPairs(b) ==
  { pr \in { << l1, Len(b) - l1 - ov >> : l1 \in 1..(Len(b) - 7), ov \in 6..12 } :
       pr[2] >= 1 /\ DerMatch(b, pr[1], pr[2]) }
StrictDer(b) == DerPairs(b) # {}

\* value map of the library (include/secp256k1.h: "accepts any valid DER encoded signature, even if the
\* encoded numbers are out of range"): a negative number or one that is >= N denotes 0
DerIntValue(c) ==
  IF c[1] >= 128 THEN Zero
  ELSE LET v == FromBytesBE(c) IN IF Lt(v, N) THEN v ELSE Zero
DerIntInRange(c) == c[1] < 128 /\ Lt(FromBytesBE(c), N)

\* parser: <<accepted, <<r, s>>>>; a rejected string leaves the all-zero object
DerParse(b) ==
  LET prs == DerPairs(b) IN
  IF prs = {} THEN << FALSE, << Zero, Zero >> >>
  ELSE LET pr == CHOOSE q \in prs : TRUE
           c  == DerContents(b, pr[1], pr[2])
       IN  << TRUE, << DerIntValue(c[1]), DerIntValue(c[2]) >> >>
DerParsedContents(b) == LET pr == CHOOSE q \in DerPairs(b) : TRUE IN DerContents(b, pr[1], pr[2])

\* serializer: the unique DER encoding of a pair of non-negative integers
DerByteLen(v) == (BitLen(v) + 7) \div 8
DerIntOf(v) ==
  IF IsZero(v) THEN << 0 >>
  ELSE LET m == ToBytesBE(v, DerByteLen(v)) IN IF m[1] >= 128 THEN << 0 >> \o m ELSE m
DerEncode(obj) == DerSigOf(DerIntOf(obj[1]), DerIntOf(obj[2]))
\* secp256k1_ecdsa_signature_serialize_der with *outputlen = cap on entry: <<ret, *outputlen, bytes>>
DerSerialize(obj, cap) ==
  LET d == DerEncode(obj) IN IF cap < Len(d) THEN << 0, Len(d), << >> >> ELSE << 1, Len(d), d >>

-----------------------------------------------------------------------------
\* Operational reader (second definition, X.690 read left to right).  Positions are 1-based;
\* a reader returns <<ok, value, next position>>.
DerReadLen(b, p) ==
  IF p > Len(b) THEN << FALSE, 0, p >>
  ELSE LET b1 == b[p] IN
    IF b1 < 128 THEN << TRUE, b1, p + 1 >>                       \* short form
    ELSE IF b1 = 128 \/ b1 = 255 THEN << FALSE, 0, p >>          \* indefinite form / reserved value
    ELSE LET k == b1 - 128 IN
      IF p + k > Len(b) THEN << FALSE, 0, p >>                   \* length octets run past the end
      ELSE LET v == FromBytesBE(SubSeq(b, p + 1, p + k)) IN
        IF b[p + 1] = 0 THEN << FALSE, 0, p >>                   \* not the fewest length octets
        ELSE IF Lt(FromNat(Len(b)), v) THEN << FALSE, 0, p >>    \* longer than any string we hold
        ELSE IF ToNat(v) < 128 THEN << FALSE, 0, p >>            \* short form was required
        ELSE << TRUE, ToNat(v), p + 1 + k >>
\* one INTEGER: <<ok, contents, next>>
DerReadInt(b, p, end) ==
  IF p > end \/ b[p] # 2 THEN << FALSE, << >>, p >>
  ELSE LET l == DerReadLen(SubSeq(b, 1, end), p + 1) IN
    IF ~l[1] \/ l[3] + l[2] - 1 > end THEN << FALSE, << >>, p >>
    ELSE LET c == SubSeq(b, l[3], l[3] + l[2] - 1) IN
      IF DerIntMinimal(c) THEN << TRUE, c, l[3] + l[2] >> ELSE << FALSE, << >>, p >>
\* the whole signature: <<ok, rc, sc>>
DerRead(b) ==
  LET bad == << FALSE, << >>, << >> >> IN
  IF Len(b) < 1 \/ b[1] # 48 THEN bad
  ELSE LET l == DerReadLen(b, 2) IN
    IF ~l[1] \/ l[3] + l[2] - 1 # Len(b) THEN bad            \* the SEQUENCE is the whole string
    ELSE LET r == DerReadInt(b, l[3], Len(b)) IN
      IF ~r[1] THEN bad
      ELSE LET s == DerReadInt(b, r[3], Len(b)) IN
        IF ~s[1] \/ s[3] # Len(b) + 1 THEN bad                \* nothing after s inside the SEQUENCE
        ELSE << TRUE, r[2], s[2] >>
=============================================================================
