------------------------------- MODULE EllSwift -------------------------------
(***************************************************************************)
(* ElligatorSwift for secp256k1, written from doc/ellswift.md (sections    *)
(* 2.1, 3.5, 4.1) and include/secp256k1_ellswift.h.  g(x) = x^3 + b.       *)
(* All arithmetic in GF(p); u, t are field elements (64-byte encodings are *)
(* reduced modulo p).                                                      *)
(***************************************************************************)
EXTENDS Curve, Hmac, Tags

EsG(x) == CurveRhs(x)
EsIsX(x) == IsSquare(EsG(x))                 \* "x is a valid x coordinate": g(x) is square
EsSqrt(a) == FSqrtCand(a)                    \* a root of a square a (the one that is itself a square; any root serves)
EsFour == << 4 >>
EsHalf == FInv(Two)
\* c0 = sqrt(-3), the value printed in the documentation
EsC0 == FromBytesBE(<< 10, 45, 43, 169, 53, 7, 241, 223, 35, 55, 112, 194, 167, 151, 150, 44, 198, 31, 109, 21, 218, 20,
                       236, 212, 125, 141, 39, 174, 28, 213, 248, 82 >>)
EsC0Ok == FSqr(EsC0) = FNeg(Three)

\* doc 2.1: F_u(t) with the remapped exceptional cases (u = 0, t = 0, g(u) = -t^2)
XSwiftEC(u, t) ==
  LET u1 == IF IsZero(u) THEN One ELSE u
      t1 == IF IsZero(t) THEN One ELSE t
      t2 == IF IsZero(FAdd(EsG(u1), FSqr(t1))) THEN FMul(Two, t1) ELSE t1
      X  == FMul(FSub(EsG(u1), FSqr(t2)), FInv(FMul(Two, t2)))
      Y  == FMul(FAdd(X, t2), FInv(FMul(u1, EsC0)))
      XY == FMul(X, FInv(Y))
      x3 == FAdd(u1, FMul(EsFour, FSqr(Y)))
      x2 == FMul(FSub(FNeg(XY), u1), EsHalf)
      x1 == FMul(FSub(XY, u1), EsHalf)
  IN  IF EsIsX(x3) THEN x3 ELSE IF EsIsX(x2) THEN x2 ELSE x1
\* which of the three candidates was taken (3, 2 or 1) -- for labelling generated cases
XSwiftECBranch(u, t) ==
  LET u1 == IF IsZero(u) THEN One ELSE u
      t1 == IF IsZero(t) THEN One ELSE t
      t2 == IF IsZero(FAdd(EsG(u1), FSqr(t1))) THEN FMul(Two, t1) ELSE t1
      X  == FMul(FSub(EsG(u1), FSqr(t2)), FInv(FMul(Two, t2)))
      Y  == FMul(FAdd(X, t2), FInv(FMul(u1, EsC0)))
      XY == FMul(X, FInv(Y))
  IN  IF EsIsX(FAdd(u1, FMul(EsFour, FSqr(Y)))) THEN 3 ELSE IF EsIsX(FMul(FSub(FNeg(XY), u1), EsHalf)) THEN 2 ELSE 1

\* doc 4.1: Decode(u, t): the point with that x whose y has the parity of t
EsU(ell64) == Mod(FromBytesBE(SubSeq(ell64, 1, 32)), P)
EsT(ell64) == Mod(FromBytesBE(SubSeq(ell64, 33, 64)), P)
EsDecodeUT(u, t) ==
  LET x == XSwiftEC(u, t)  y0 == EsSqrt(EsG(x))
  IN  << x, IF IsOdd(y0) = IsOdd(t) THEN y0 ELSE FNeg(y0) >>
EsDecode(ell64) == EsDecodeUT(EsU(ell64), EsT(ell64))

\* doc 3.5: G_{c,u}(x), the partial inverses; <<ok, t>>
EsInvFinish(s, v, u, c) ==
  IF ~IsSquare(s) THEN << FALSE, Zero >>
  ELSE LET w == EsSqrt(s)
           a == CASE c \in { 0, 2 } -> FSub(FMul(FMul(FSub(EsC0, One), EsHalf), u), v)
                  [] c \in { 1, 3 } -> FAdd(FMul(FMul(FAdd(EsC0, One), EsHalf), u), v)
                  [] c \in { 4, 6 } -> FAdd(FMul(FMul(FAdd(FNeg(EsC0), One), EsHalf), u), v)
                  [] c \in { 5, 7 } -> FSub(FMul(FMul(FSub(FNeg(EsC0), One), EsHalf), u), v)
       IN  << TRUE, FMul(w, a) >>
XSwiftECInv(x, u, c) ==
  IF IsZero(u) THEN << FALSE, Zero >>
  ELSE IF c \in { 0, 1, 4, 5 }
  THEN IF EsIsX(FSub(FNeg(u), x)) THEN << FALSE, Zero >>
       ELSE EsInvFinish(FMul(FNeg(EsG(u)), FInv(FAdd(FAdd(FSqr(u), FMul(u, x)), FSqr(x)))), x, u, c)
  ELSE LET s == FSub(x, u)
           q == FNeg(FMul(s, FAdd(FMul(EsFour, EsG(u)), FMul(Three, FMul(s, FSqr(u))))))
       IN  IF ~IsSquare(q) THEN << FALSE, Zero >>
           ELSE LET r == EsSqrt(q) IN
                IF (c \in { 3, 7 } /\ IsZero(r)) \/ IsZero(s) THEN << FALSE, Zero >>
                ELSE EsInvFinish(s, FMul(FSub(FMul(r, FInv(s)), u), EsHalf), u, c)

\* an encoding of the point Q built by the specification: u given, the first branch c that has a preimage;
\* <<ok, ell64>>.  The sign of t carries the parity of y (doc 4.1).
EsEncodeWith(Q, u) ==
  LET ok == { c \in 0..7 : XSwiftECInv(Q[1], u, c)[1] } IN
  IF ok = { } THEN << FALSE, << >> >>
  ELSE LET c == CHOOSE c \in ok : \A d \in ok : c <= d
           t0 == XSwiftECInv(Q[1], u, c)[2]
           t == IF IsOdd(t0) = IsOdd(Q[2]) THEN t0 ELSE FNeg(t0)
       IN  << TRUE, ToBytesBE(u, 32) \o ToBytesBE(t, 32) >>

\* x-only Diffie-Hellman on encodings (include/secp256k1_ellswift.h).  hash: 0 = BIP-324 tagged hash,
\* 1 = SHA256(prefix64 || ell_a || ell_b || x), 2 = caller-supplied callback returning x, 3 = callback that fails
EsSecretOk(secret32) == LET s == FromBytesBE(secret32) IN ~IsZero(s) /\ Lt(s, N)
EsSharedX32(theirs64, secret32) == X32(PMul(FromBytesBE(secret32), EsDecode(theirs64)))
EsXdhHash(ella, ellb, x32, hash, data) ==
  CASE hash = 0 -> TagHash(TagBip324Ellswift, ella \o ellb \o x32)
    [] hash = 1 -> Sha256Hash(data \o ella \o ellb \o x32)
    [] hash = 2 -> x32
EsXdh(ella, ellb, secret32, party, hash, data) ==
  IF ~EsSecretOk(secret32) \/ hash \notin { 0, 1, 2 } THEN << 0, << >> >>
  ELSE << 1, EsXdhHash(ella, ellb, EsSharedX32(IF party # 0 THEN ella ELSE ellb, secret32), hash, data) >>
=============================================================================
