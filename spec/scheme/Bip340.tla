------------------------------- MODULE Bip340 -------------------------------
(* BIP-340 Schnorr signatures, written from the BIP text.  Public keys are 32-byte x coordinates. *)
EXTENDS Curve, Hmac, Tags

Challenge(r32, pk32, msg) == Mod(FromBytesBE(TagHash(TagBip340Challenge, r32 \o pk32 \o msg)), N)

\* BIP-340 Verify(pk, m, sig)
Verify(sig64, msg, pk32) ==
  LET Pl == LiftX(FromBytesBE(pk32))
      r  == FromBytesBE(SubSeq(sig64, 1, 32))
      s  == FromBytesBE(SubSeq(sig64, 33, 64))
  IN  /\ Len(sig64) = 64 /\ Pl[1] /\ Lt(r, P) /\ Lt(s, N)
      /\ LET e == Challenge(SubSeq(sig64, 1, 32), pk32, msg)
             R == PSub(PMulG(s), PMul(e, Pl[2]))
         IN  ~IsInf(R) /\ HasEvenY(R) /\ R[1] = r

\* BIP-340 default signing; aux = << >> means "no auxiliary randomness", which the library treats
\* as 32 zero bytes.  Returns <<ret, sig64>>; key32 must be a valid secret key (keypair creation
\* rejects anything else).
Sign(key32, msg, aux) ==
  LET d0 == FromBytesBE(key32)
      Pt == PMulG(d0)
      d  == IF HasEvenY(Pt) THEN d0 ELSE SNeg(d0)
      pk32 == X32(Pt)
      a  == IF Len(aux) = 0 THEN Zeros(32) ELSE aux
      t  == BXor(Scalar32(d), TagHash(TagBip340Aux, a))
      rand == TagHash(TagBip340Nonce, t \o pk32 \o msg)
      k0 == Mod(FromBytesBE(rand), N)
  IN  IF IsZero(k0) THEN << 0, Zeros(64) >>
      ELSE LET R == PMulG(k0)
               k == IF HasEvenY(R) THEN k0 ELSE SNeg(k0)
               e == Challenge(X32(R), pk32, msg)
           IN  << 1, X32(R) \o Scalar32(SAdd(k, SMul(e, d))) >>

\* the exported nonce function (secp256k1_nonce_function_bip340): BIP-340's nonce derivation tagged with the caller's algo string
\* ("BIP0340/nonce" for signatures); algo absent => failure.  aux = << >> means NULL, which behaves as 32 zero bytes.
NonceFn(msg, key32, pk32, algo, hasAlgo, aux) ==
  IF ~hasAlgo THEN << 0, << >> >>
  ELSE LET a == IF Len(aux) = 0 THEN Zeros(32) ELSE aux
           t == BXor(key32, TagHash(TagBip340Aux, a))
       IN  << 1, TagHash(algo, t \o pk32 \o msg) >>

\* signing with a caller-chosen nonce value nonce32 (custom nonce function returning it), as
\* secp256k1_schnorrsig_sign_internal specifies: k = nonce mod n, failure iff k = 0
SignWithNonce(key32, msg, nonce32) ==
  LET d0 == FromBytesBE(key32)  Pt == PMulG(d0)
      d  == IF HasEvenY(Pt) THEN d0 ELSE SNeg(d0)
      k0 == Mod(FromBytesBE(nonce32), N)
  IN  IF IsZero(k0) THEN << 0, Zeros(64) >>
      ELSE LET R == PMulG(k0)
               k == IF HasEvenY(R) THEN k0 ELSE SNeg(k0)
               e == Challenge(X32(R), X32(Pt), msg)
           IN  << 1, X32(R) \o Scalar32(SAdd(k, SMul(e, d))) >>
=============================================================================
