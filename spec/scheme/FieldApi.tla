------------------------------- MODULE FieldApi -------------------------------
(***************************************************************************)
(* The field API of src/field.h as a register machine -- a TRANSCRIPTION  *)
(* of the contract written in that header (on purpose: the property is    *)
(* about exactly this case analysis).                                      *)
(*                                                                         *)
(* A register holds  [v |-> value mod P, m |-> magnitude, n |-> normalized] *)
(* (field.h:19-27: "magnitude: an integer in [0,32]; normalized: 0 or 1;  *)
(* normalized=1 implies magnitude <= 1").  m = -1 marks a register the     *)
(* header calls invalid (after a failed set_b32_limit: "r will be made     *)
(* invalid and must not be used without overwriting").                     *)
(*                                                                         *)
(* An operation is a tuple <<name, r, a, b, k>>: r = written register,     *)
(* a, b = read registers, k = small integer argument or a 32-byte string.  *)
(* FePre is its documented precondition, FeEffect its documented effect,   *)
(* values being exact arithmetic modulo P (Curve.tla).                     *)
(*                                                                         *)
(* ERRATA of the header against its own executable contract (the VERIFY    *)
(* wrappers of src/field_impl.h); the machine follows the wrappers and     *)
(* notes/C05.md reports them:                                              *)
(*  E1 fe_half: the header says "r will be normalized"; the wrapper sets   *)
(*     normalized = 0 (and the value really need not be canonical:         *)
(*     half of the non-canonical zero P is P).                             *)
(*  E2 fe_half: the wrapper additionally requires magnitude <= 31.         *)
(*  E3 fe_equal: the header (and the function's own VERIFY precondition)   *)
(*     admit magnitude 31 for b; the body computes negate(a,1) + b, whose  *)
(*     magnitude 2 + 31 exceeds 32, so VERIFY builds abort for b.m = 31.   *)
(*     The machine uses the effective bound 30.                            *)
(***************************************************************************)
EXTENDS Curve, Integers

FeReg(v, m, n) == [v |-> v, m |-> m, n |-> n]
FeInvalid == FeReg(Zero, -1, 0)
FeValid(x) == x.m >= 0
FeLoadMod(b32) == FeReg(Mod(FromBytesBE(b32), P), 1, 0)
FeMaxMag == 32
\* design-level well-formedness of a register (field.h:19-27)
FeWellFormed(x) == \/ x = FeInvalid
                   \/ /\ x.m \in 0..FeMaxMag /\ x.n \in {0, 1} /\ (x.n = 1 => x.m <= 1)
                      /\ Lt(x.v, P) /\ (x.m = 0 => x.v = Zero)

FeMax2(a, b) == IF a >= b THEN a ELSE b
\* "If sqrt(a) exists ... r = sqrt(a); otherwise r = sqrt(-a).  The resulting value will be a square itself."
FeSqrtOf(x) == LET y == IF IsSquare(x) THEN x ELSE FNeg(x)
                   c == FSqrtCand(y)
               IN  IF IsSquare(c) THEN c ELSE FNeg(c)
FeHalf(x) == FMul(x, FInv(Two))
FeCmp3(a, b) == IF Lt(a, b) THEN -1 ELSE IF a = b THEN 0 ELSE 1

FeMutators == { "normalize", "normalize_weak", "normalize_var", "negate", "add", "add_int", "mul_int", "mul", "sqr",
                "half", "inv", "inv_var", "sqrt", "cmov", "set_int", "set_b32_mod", "set_b32_limit", "stor" }
FePredicates == { "get_b32", "is_zero", "is_odd", "equal", "cmp_var", "normalizes_to_zero", "normalizes_to_zero_var", "is_square_var" }
FeIsMutator(op) == op[1] \in FeMutators

\* documented precondition
FePre(regs, op) ==
  LET nm == op[1]  R == regs[op[2]]  A == regs[op[3]]  Bq == regs[op[4]]  k == op[5] IN
  CASE nm \in { "normalize", "normalize_weak", "normalize_var" } -> FeValid(R)
    [] nm = "negate"   -> FeValid(A) /\ k \in 0..31 /\ A.m <= k
    [] nm = "add"      -> FeValid(R) /\ FeValid(A) /\ R.m + A.m <= FeMaxMag
    [] nm = "add_int"  -> FeValid(R) /\ k \in 0..32767 /\ R.m + 1 <= FeMaxMag
    [] nm = "mul_int"  -> FeValid(R) /\ k \in 0..32 /\ R.m * k <= FeMaxMag
    [] nm = "mul"      -> FeValid(A) /\ FeValid(Bq) /\ A.m <= 8 /\ Bq.m <= 8 /\ op[2] # op[4] /\ op[3] # op[4]
    [] nm = "sqr"      -> FeValid(A) /\ A.m <= 8
    [] nm = "half"     -> FeValid(R) /\ R.m <= 31                      \* E2
    [] nm \in { "inv", "inv_var" } -> FeValid(A)
    [] nm = "sqrt"     -> FeValid(A) /\ A.m <= 8 /\ op[2] # op[3]
    [] nm = "cmov"     -> FeValid(R) /\ FeValid(A) /\ k \in {0, 1}
    [] nm = "set_int"  -> k \in 0..32767
    [] nm \in { "set_b32_mod", "set_b32_limit" } -> Len(k) = 32
    [] nm = "stor"     -> FeValid(A) /\ A.n = 1
    [] nm \in { "get_b32", "is_zero", "is_odd" } -> FeValid(A) /\ A.n = 1
    [] nm = "equal"    -> FeValid(A) /\ FeValid(Bq) /\ A.m <= 1 /\ Bq.m <= 30          \* E3 (header: 31)
    [] nm = "cmp_var"  -> FeValid(A) /\ FeValid(Bq) /\ A.n = 1 /\ Bq.n = 1
    [] nm \in { "normalizes_to_zero", "normalizes_to_zero_var", "is_square_var" } -> FeValid(A)
    [] OTHER -> FALSE

\* documented effect: [w |-> written register or -1, reg |-> its new contents, ret |-> return value, bytes |-> output bytes]
FeW(r, reg, ret) == [w |-> r, reg |-> reg, ret |-> ret, bytes |-> << >>]
FeP(ret) == [w |-> -1, reg |-> FeInvalid, ret |-> ret, bytes |-> << >>]
FeEffect(regs, op) ==
  LET nm == op[1]  r == op[2]  R == regs[op[2]]  A == regs[op[3]]  Bq == regs[op[4]]  k == op[5] IN
  CASE nm \in { "normalize", "normalize_var" } -> FeW(r, FeReg(R.v, 1, 1), 0)
    [] nm = "normalize_weak" -> FeW(r, FeReg(R.v, 1, R.n), 0)
    [] nm = "negate"   -> FeW(r, FeReg(FNeg(A.v), k + 1, 0), 0)
    [] nm = "add"      -> FeW(r, FeReg(FAdd(R.v, A.v), R.m + A.m, 0), 0)
    [] nm = "add_int"  -> FeW(r, FeReg(FAdd(R.v, FromNat(k)), R.m + 1, 0), 0)
    [] nm = "mul_int"  -> FeW(r, FeReg(FMul(R.v, FromNat(k)), R.m * k, 0), 0)
    [] nm = "mul"      -> FeW(r, FeReg(FMul(A.v, Bq.v), 1, 0), 0)
    [] nm = "sqr"      -> FeW(r, FeReg(FSqr(A.v), 1, 0), 0)
    [] nm = "half"     -> FeW(r, FeReg(FeHalf(R.v), (R.m \div 2) + 1, 0), 0)          \* E1
    [] nm \in { "inv", "inv_var" } -> FeW(r, FeReg(FInv(A.v), IF A.m # 0 THEN 1 ELSE 0, 1), 0)
    [] nm = "sqrt"     -> FeW(r, FeReg(FeSqrtOf(A.v), 1, 0), IF IsSquare(A.v) THEN 1 ELSE 0)
    [] nm = "cmov"     -> FeW(r, FeReg(IF k = 1 THEN A.v ELSE R.v, FeMax2(R.m, A.m), IF R.n = 1 /\ A.n = 1 THEN 1 ELSE 0), 0)
    [] nm = "set_int"  -> FeW(r, FeReg(FromNat(k), IF k # 0 THEN 1 ELSE 0, 1), 0)
    [] nm = "set_b32_mod" -> FeW(r, FeLoadMod(k), 0)
    [] nm = "set_b32_limit" -> LET x == FromBytesBE(k) IN IF Lt(x, P) THEN FeW(r, FeReg(x, 1, 1), 1) ELSE FeW(r, FeInvalid, 0)
    [] nm = "stor"     -> FeW(r, FeReg(A.v, 1, 1), 0)
    [] nm = "get_b32"  -> [w |-> -1, reg |-> FeInvalid, ret |-> 0, bytes |-> ToBytesBE(A.v, 32)]
    [] nm = "is_zero"  -> FeP(IF A.v = Zero THEN 1 ELSE 0)
    [] nm = "is_odd"   -> FeP(IF IsOdd(A.v) THEN 1 ELSE 0)
    [] nm = "equal"    -> FeP(IF A.v = Bq.v THEN 1 ELSE 0)
    [] nm = "cmp_var"  -> FeP(FeCmp3(A.v, Bq.v))
    [] nm \in { "normalizes_to_zero", "normalizes_to_zero_var" } -> FeP(IF A.v = Zero THEN 1 ELSE 0)
    [] nm = "is_square_var" -> FeP(IF IsSquare(A.v) THEN 1 ELSE 0)

FeApply(regs, eff) == IF eff.w >= 0 THEN [regs EXCEPT ![eff.w] = eff.reg] ELSE regs

\* what the replay observes after a step: the value of the written register (normalised by the observer), or the
\* bytes a get_b32 produced; the return value; the materialised magnitude / normalized fields (VERIFY builds)
FeObsVal(eff) == IF eff.w >= 0 /\ FeValid(eff.reg) THEN ToBytesBE(eff.reg.v, 32) ELSE eff.bytes
FeObsMag(eff) == IF eff.w >= 0 THEN eff.reg.m ELSE 0
FeObsNrm(eff) == IF eff.w >= 0 THEN eff.reg.n ELSE 0

\* design-level theorems about single effects (checked by the model on every transition)
FeEffectSound(regs, op, eff) ==
  /\ (eff.w >= 0 => FeWellFormed(eff.reg))
  /\ (op[1] = "sqrt" => LET x == regs[op[3]].v IN
        /\ IsSquare(eff.reg.v)
        /\ FSqr(eff.reg.v) = (IF eff.ret = 1 THEN x ELSE FNeg(x)))
  /\ (op[1] \in {"inv", "inv_var"} => LET x == regs[op[3]].v IN
        IF x = Zero THEN eff.reg.v = Zero ELSE FMul(eff.reg.v, x) = One)
  /\ (op[1] = "half" => FAdd(eff.reg.v, eff.reg.v) = regs[op[2]].v)
=============================================================================
