------------------------------- MODULE Bip327 -------------------------------
(***************************************************************************)
(* BIP-327 (MuSig2 for BIP-340 compatible multi-signatures), written from  *)
(* the BIP text: KeyAgg, ApplyTweak, NonceGen, NonceAgg, GetSessionValues, *)
(* Sign, PartialSigVerify, PartialSigAgg.  Additions of the library that   *)
(* the BIP does not contain are marked "(module)": the counter nonce       *)
(* generator and the adaptor-signature extension (include/secp256k1_musig.h*)
(* and doc/musig.md).                                                      *)
(*                                                                         *)
(* Conventions.  Scalars and coordinates are BigNat values, points are     *)
(* <<x, y>> or Inf, byte strings are sequences of 0..255.  Plain public    *)
(* keys are 33-byte compressed encodings ("cbytes").  gacc is kept as the  *)
(* scalar 1 or N-1 (that is -1 mod n), exactly as in the BIP.  Operators   *)
(* are prefixed Ms because Bip340 already owns Sign/Verify/Challenge.      *)
(***************************************************************************)
EXTENDS Bip340

MsIntModN(b32) == Mod(FromBytesBE(b32), N)
MsMinusOne == Sub(N, One)
MsLenBytes(len, width) == ToBytesBE(FromNat(len), width)
\* cofactor check of cpoint parsing in the small test groups (secp256k1 itself has cofactor 1)
MsInSubgroup(Q) == IsInf(PMul(N, Q))

-----------------------------------------------------------------------------
\* Key aggregation

MsHashKeys(pks) == TagHash(TagKeyAggList, Flatten(pks))
\* GetSecondKey: the first key different from pks[1]; 33 zero bytes when all keys are equal
RECURSIVE MsSecondKeyFrom(_, _)
MsSecondKeyFrom(pks, j) ==
  IF j > Len(pks) THEN Zeros(33)
  ELSE IF pks[j] # pks[1] THEN pks[j] ELSE MsSecondKeyFrom(pks, j + 1)
MsGetSecondKey(pks) == MsSecondKeyFrom(pks, 2)
\* KeyAggCoeffInternal(pk_1..u, pk) with L and pk2 precomputed
MsKeyAggCoeffL(L, pk2, pk) ==
  IF pk = pk2 THEN One ELSE MsIntModN(TagHash(TagKeyAggCoef, L \o pk))
MsKeyAggCoeff(pks, pk) == MsKeyAggCoeffL(MsHashKeys(pks), MsGetSecondKey(pks), pk)

RECURSIVE MsAggSum(_, _, _, _)
MsAggSum(pks, L, pk2, i) ==
  IF i > Len(pks) THEN Inf
  ELSE PAdd(PMul(MsKeyAggCoeffL(L, pk2, pks[i]), ParsePub(pks[i])[2]), MsAggSum(pks, L, pk2, i + 1))

\* KeyAgg(pk_1..u): keyagg_ctx = (Q, gacc, tacc); the key list (and L, pk2 derived from it) is kept
\* with the context because Sign/PartialSigVerify need the coefficients.
MsKeyAgg(pks) ==
  LET allok == \A i \in 1..Len(pks) : Len(pks[i]) = 33 /\ ParsePub(pks[i])[1]
  IN  IF Len(pks) = 0 \/ ~allok THEN [ ok |-> FALSE ]
      ELSE LET L == MsHashKeys(pks)  pk2 == MsGetSecondKey(pks)
               Q == MsAggSum(pks, L, pk2, 1)
           IN  IF IsInf(Q) THEN [ ok |-> FALSE ]
               ELSE [ ok |-> TRUE, Q |-> Q, gacc |-> One, tacc |-> Zero, L |-> L, pk2 |-> pk2 ]
MsCoeffOf(kctx, pk) == MsKeyAggCoeffL(kctx.L, kctx.pk2, pk)

\* ApplyTweak(keyagg_ctx, tweak, is_xonly_t)
MsApplyTweak(kctx, tweak32, xonly) ==
  LET g == IF xonly /\ ~HasEvenY(kctx.Q) THEN MsMinusOne ELSE One
      t == FromBytesBE(tweak32)
  IN  IF ~Lt(t, N) THEN [ ok |-> FALSE ]
      ELSE LET Q1 == PAdd(IF g = One THEN kctx.Q ELSE PNeg(kctx.Q), PMulG(t))
           IN  IF IsInf(Q1) THEN [ ok |-> FALSE ]
               ELSE [ ok |-> TRUE, Q |-> Q1, gacc |-> SMul(g, kctx.gacc), tacc |-> SAdd(t, SMul(g, kctx.tacc)),
                      L |-> kctx.L, pk2 |-> kctx.pk2 ]

\* the discrete logarithm of the (tweaked) aggregate key, from the signers' secrets:  Q = q*G with
\* q = gacc * sum(a_i d_i) + tacc ... only the generator of test inputs uses it (to aim at Q' = infinity)
RECURSIVE MsCoeffSecretSum(_, _, _, _)
MsCoeffSecretSum(kctx, pks, ds, i) ==
  IF i > Len(pks) THEN Zero ELSE SAdd(SMul(MsCoeffOf(kctx, pks[i]), ds[i]), MsCoeffSecretSum(kctx, pks, ds, i + 1))
MsAggSecret(kctx, pks, ds) == SAdd(SMul(kctx.gacc, MsCoeffSecretSum(kctx, pks, ds, 1)), kctx.tacc)

-----------------------------------------------------------------------------
\* Nonce generation.  Optional arguments: << >> = absent.

MsNonceHash(rand, pk, aggpk, msg, hasmsg, extra, i) ==
  TagHash(TagMusigNonce,
          rand \o MsLenBytes(Len(pk), 1) \o pk \o MsLenBytes(Len(aggpk), 1) \o aggpk
          \o (IF hasmsg THEN << 1 >> \o MsLenBytes(Len(msg), 8) \o msg ELSE << 0 >>)
          \o MsLenBytes(Len(extra), 4) \o extra \o << i >>)
\* NonceGen(sk, pk, aggpk, m, extra_in) with rand' given: [ok, k1, k2, pk, R1, R2]
MsNonceGen(randp, sk, hassk, pk, aggpk, msg, hasmsg, extra) ==
  LET rand == IF hassk THEN BXor(sk, TagHash(TagMusigAux, randp)) ELSE randp
      k1 == MsIntModN(MsNonceHash(rand, pk, aggpk, msg, hasmsg, extra, 0))
      k2 == MsIntModN(MsNonceHash(rand, pk, aggpk, msg, hasmsg, extra, 1))
  IN  IF IsZero(k1) \/ IsZero(k2) THEN [ ok |-> FALSE ]
      ELSE [ ok |-> TRUE, k1 |-> k1, k2 |-> k2, pk |-> pk, R1 |-> PMulG(k1), R2 |-> PMulG(k2) ]
\* (module) secp256k1_musig_nonce_gen_counter: the randomness is the 64-bit counter, big-endian, in the
\* first 8 of 32 bytes; the secret key is always present
MsCounterRand(cnt8) == cnt8 \o Zeros(24)
MsNonceGenCounter(cnt8, sk, pk, aggpk, msg, hasmsg, extra) ==
  MsNonceGen(MsCounterRand(cnt8), sk, TRUE, pk, aggpk, msg, hasmsg, extra)
\* a nonce pair from chosen scalars (what NonceGen outputs once k1, k2 are fixed)
MsNonceFrom(k1, k2, pk) == [ ok |-> TRUE, k1 |-> k1, k2 |-> k2, pk |-> pk, R1 |-> PMulG(k1), R2 |-> PMulG(k2) ]
MsPubNonceBytes(nn) == Ser33(nn.R1) \o Ser33(nn.R2)
\* cpoint x cpoint parser of a 66-byte public nonce: <<ok, R1, R2>>
MsParsePubNonce(b66) ==
  IF Len(b66) # 66 THEN << FALSE, Inf, Inf >>
  ELSE LET a == ParsePub(SubSeq(b66, 1, 33))  b == ParsePub(SubSeq(b66, 34, 66))
       IN  IF a[1] /\ b[1] /\ MsInSubgroup(a[2]) /\ MsInSubgroup(b[2]) THEN << TRUE, a[2], b[2] >> ELSE << FALSE, Inf, Inf >>

-----------------------------------------------------------------------------
\* Nonce aggregation: component-wise sums, infinity allowed (cbytes_ext: 33 zero bytes)
RECURSIVE MsSumComp(_, _, _)
MsSumComp(nonces, j, i) ==   \* nonces: sequence of <<R1, R2>>
  IF i > Len(nonces) THEN Inf ELSE PAdd(nonces[i][j], MsSumComp(nonces, j, i + 1))
MsNonceAgg(nonces) == << MsSumComp(nonces, 1, 1), MsSumComp(nonces, 2, 1) >>
MsAggNonceBytes(an) == Ser33Ext(an[1]) \o Ser33Ext(an[2])
MsParseAggNonce(b66) ==
  IF Len(b66) # 66 THEN << FALSE, Inf, Inf >>
  ELSE LET a == Parse33Ext(SubSeq(b66, 1, 33))  b == Parse33Ext(SubSeq(b66, 34, 66))
       IN  IF a[1] /\ b[1] /\ MsInSubgroup(a[2]) /\ MsInSubgroup(b[2]) THEN << TRUE, a[2], b[2] >> ELSE << FALSE, Inf, Inf >>

-----------------------------------------------------------------------------
\* GetSessionValues: b, R, e (Q, gacc, tacc come from the keyagg context).
\* (module) an adaptor point T, when present, is added to the first aggregate nonce before anything
\* else is derived from it, so the final nonce is R1 + T + b*R2.
\* rinf records that R1 + b*R2 was infinity and G was substituted (only possible with a dishonest signer).
\* tpart = e*g*tacc is the term PartialSigAgg adds.
MsSessionValues(aggnonce, msg, kctx, adaptor, hasadaptor) ==
  LET A1 == IF hasadaptor THEN PAdd(aggnonce[1], adaptor) ELSE aggnonce[1]
      A2 == aggnonce[2]
      q32 == X32(kctx.Q)
      b  == MsIntModN(TagHash(TagMusigNonceCoef, Ser33Ext(A1) \o Ser33Ext(A2) \o q32 \o msg))
      R0 == PAdd(A1, PMul(b, A2))
      R  == IF IsInf(R0) THEN G ELSE R0
      e  == Challenge(X32(R), q32, msg)
      g  == IF HasEvenY(kctx.Q) THEN One ELSE MsMinusOne
  IN  [ b |-> b, R |-> R, e |-> e, rinf |-> IsInf(R0), tpart |-> SMul(e, SMul(g, kctx.tacc)) ]
MsNonceParity(sv) == IF HasEvenY(sv.R) THEN 0 ELSE 1

\* Sign(secnonce, sk, session_ctx): <<ok, s>>.  nn = [k1, k2, pk] is the secret nonce, d0 the secret key.
MsPartialSign(nn, d0, kctx, sv) ==
  IF ~ValidSecret(d0) \/ IsZero(nn.k1) \/ IsZero(nn.k2) \/ ~Lt(nn.k1, N) \/ ~Lt(nn.k2, N) THEN << FALSE, Zero >>
  ELSE LET k1 == IF HasEvenY(sv.R) THEN nn.k1 ELSE SNeg(nn.k1)
           k2 == IF HasEvenY(sv.R) THEN nn.k2 ELSE SNeg(nn.k2)
           pk == Ser33(PMulG(d0))
       IN  IF pk # nn.pk THEN << FALSE, Zero >>
           ELSE LET a == MsCoeffOf(kctx, pk)
                    g == IF HasEvenY(kctx.Q) THEN One ELSE MsMinusOne
                    d == SMul(SMul(g, kctx.gacc), d0)
                IN  << TRUE, SAdd(SAdd(k1, SMul(sv.b, k2)), SMul(SMul(sv.e, a), d)) >>

\* PartialSigVerifyInternal(psig, pubnonce, pk, session_ctx); s is the parsed scalar, pn = <<R1, R2>>
MsPartialSigVerify(s, pn, pk33, kctx, sv) ==
  LET Pp == ParsePub(pk33) IN
  /\ Lt(s, N) /\ Pp[1]
  /\ LET Re0 == PAdd(pn[1], PMul(sv.b, pn[2]))
         Re  == IF HasEvenY(sv.R) THEN Re0 ELSE PNeg(Re0)
         a   == MsCoeffOf(kctx, Ser33(Pp[2]))
         g   == IF HasEvenY(kctx.Q) THEN One ELSE MsMinusOne
         gp  == SMul(g, kctx.gacc)
     IN  PMulG(s) = PAdd(Re, PMul(SMul(SMul(sv.e, a), gp), Pp[2]))

\* PartialSigAgg(psig_1..u, session_ctx): the 64-byte signature
RECURSIVE MsSumScalars(_, _)
MsSumScalars(ss, i) == IF i > Len(ss) THEN Zero ELSE SAdd(ss[i], MsSumScalars(ss, i + 1))
MsPartialSigAgg(ss, sv) == X32(sv.R) \o Scalar32(SAdd(MsSumScalars(ss, 1), sv.tpart))

-----------------------------------------------------------------------------
\* (module) adaptor signatures.  A pre-signature is (xbytes(R), s) for the nonce R = R1 + T + b*R2; the
\* completed signature adds t when R has even y and subtracts it otherwise.  <<ok, result>>; the result
\* is meaningful only when ok.
MsAdapt(presig64, t32, parity) ==
  LET s == FromBytesBE(SubSeq(presig64, 33, 64))  t == FromBytesBE(t32) IN
  IF ~Lt(s, N) \/ ~Lt(t, N) THEN << FALSE, Zeros(64) >>
  ELSE << TRUE, SubSeq(presig64, 1, 32) \o Scalar32(IF parity = 1 THEN SSub(s, t) ELSE SAdd(s, t)) >>
MsExtractAdaptor(sig64, presig64, parity) ==
  LET s == FromBytesBE(SubSeq(sig64, 33, 64))  p == FromBytesBE(SubSeq(presig64, 33, 64)) IN
  IF ~Lt(s, N) \/ ~Lt(p, N) THEN << FALSE, Zeros(32) >>
  ELSE << TRUE, Scalar32(IF parity = 1 THEN SSub(p, s) ELSE SSub(s, p)) >>
=============================================================================
