------------------------------- MODULE Trace_C20 -------------------------------
(***************************************************************************)
(* Trace validation for C20: context life-cycle events emitted by the      *)
(* guarded hooks in src/secp256k1.c while the REPOSITORY'S OWN tests run.  *)
(* Every create / clone / randomize event carries the internal blinding    *)
(* state (scalar_offset, ge_offset, proj_blind) after the call; the trace  *)
(* machine recomputes it with C20_Context!BlindReset / BlindStep from the  *)
(* logged seed and the state it has tracked for that context, and the      *)
(* event is explainable only if they agree.  A context the trace has not   *)
(* seen being created (e.g. made by memcpy in a test) is adopted by the    *)
(* named silent step Adopt (counted).                                      *)
(***************************************************************************)
EXTENDS C20_Context

TEvents == ndJsonDeserialize(IOEnv.TRACE)
VARIABLES l, bl, adopted
tvars == << l, bl, adopted, ctx, steps, last, phase, cur, rec >>
Dead == [dead |-> TRUE]
St(e) == [ so |-> FromBytesBE(e.so), ge |-> ParsePub(e.ge)[2], pb |-> FromBytesBE(e.pb) ]
Known(c) == c \in DOMAIN bl /\ bl[c] # Dead
Put(c, st) == [x \in (DOMAIN bl) \cup {c} |-> IF x = c THEN st ELSE bl[x]]

XInit == HInit /\ phase = "na" /\ cur = 0 /\ rec = 0 /\ l = 1 /\ bl = << >> /\ adopted = 0
Ev == TEvents[l]
Frame == UNCHANGED << ctx, steps, last, phase, cur, rec >>
XCreate == /\ l <= Len(TEvents) /\ Ev.e = "CtxCreate" /\ Ev.ret = 1
           /\ St(Ev) = BlindReset(Ev.comb_bits)
           /\ bl' = Put(Ev.c, St(Ev)) /\ l' = l + 1 /\ adopted' = adopted /\ Frame
XClone ==  /\ l <= Len(TEvents) /\ Ev.e = "CtxClone" /\ Ev.ret = 1 /\ Known(Ev.s)
           /\ St(Ev) = bl[Ev.s]
           /\ bl' = Put(Ev.c, St(Ev)) /\ l' = l + 1 /\ adopted' = adopted /\ Frame
\* cloning something that is not a live proper context (the static context, a destroyed one) is refused
XCloneFail == /\ l <= Len(TEvents) /\ Ev.e = "CtxClone" /\ Ev.ret = 0 /\ ~Known(Ev.s)
              /\ bl' = bl /\ l' = l + 1 /\ adopted' = adopted /\ Frame
XRandomize == /\ l <= Len(TEvents) /\ Ev.e = "CtxRandomize" /\ Known(Ev.c)
              /\ St(Ev) = (IF "seed" \in DOMAIN Ev THEN BlindStep(bl[Ev.c], Ev.seed, Ev.comb_bits) ELSE BlindReset(Ev.comb_bits))
              /\ BlindSound(St(Ev), Ev.comb_bits)
              /\ bl' = Put(Ev.c, St(Ev)) /\ l' = l + 1 /\ adopted' = adopted /\ Frame
XDestroy == /\ l <= Len(TEvents) /\ Ev.e = "CtxDestroy"
            /\ bl' = Put(Ev.c, Dead) /\ l' = l + 1 /\ adopted' = adopted /\ Frame
\* a context object the trace did not see being created (byte copy made by the client): adopt the source's / its own logged state
Adopt == /\ l <= Len(TEvents)
         /\ \/ (Ev.e = "CtxRandomize" /\ ~Known(Ev.c) /\ bl' = Put(Ev.c, St(Ev)))
            \/ (Ev.e = "CtxClone" /\ Ev.ret = 1 /\ ~Known(Ev.s) /\ bl' = Put(Ev.c, St(Ev)))
         /\ l' = l + 1 /\ adopted' = adopted + 1 /\ Frame
XNext == XCreate \/ XClone \/ XCloneFail \/ XRandomize \/ XDestroy \/ Adopt
NotAccepted == l <= Len(TEvents)
=============================================================================
