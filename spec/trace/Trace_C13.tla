------------------------------- MODULE Trace_C13 -------------------------------
(***************************************************************************)
(* Trace validation for C13: events emitted by the guarded hooks           *)
(* (src/modules/musig/session_impl.h, -DSECP256K1_ZKP_VERIF) while the     *)
(* REPOSITORY'S OWN musig tests run are explained, one by one, by the      *)
(* actions of C13_MuSigNonce.  The argument class is not logged -- TLC     *)
(* infers it (\E cls); the logged fields (object class before/after, key   *)
(* match flag, NULL-argument flag, randomness zero-ness, return value)     *)
(* are bound.  Client steps the API cannot see are explicit silent         *)
(* actions: writing a buffer (ClientRand) and overwriting an object's      *)
(* memory (ClientObj; restoring a live nonce by memcpy -- which the tests   *)
(* do -- is counted as a named deviation).  A trace is accepted iff all    *)
(* its events are consumed; every invariant of the base specification is   *)
(* evaluated in every state on the way.                                     *)
(***************************************************************************)
EXTENDS C13_MuSigNonce

TraceEvents == ndJsonDeserialize(IOEnv.TRACE)
VARIABLES l, dev
tvars == << obj, rand, sigs, nextId, last, l, dev >>
tview == << obj, rand, sigs, nextId, l, dev >>

ClsNum(x) == IF x.c = "zero" THEN 0 ELSE IF x.c = "live" THEN 1 ELSE 2
NullArgClasses == { "out_null", "keypair_null", "cache_null", "session_null" }

TInit == Init /\ l = 1 /\ dev = 0

\* ---- silent client steps -------------------------------------------------------------
ClientObj ==
  /\ l <= Len(TraceEvents)
  /\ LET e == TraceEvents[l] IN
     /\ e.pre # 3 /\ ClsNum(obj[e.o]) # e.pre
     /\ nextId <= MaxId
     /\ obj' = [obj EXCEPT ![e.o] = IF e.pre = 0 THEN Zero ELSE IF e.pre = 2 THEN Junk ELSE Live(nextId, 0)]
     /\ nextId' = IF e.pre = 1 THEN nextId + 1 ELSE nextId
     /\ dev' = IF e.pre = 1 THEN dev + 1 ELSE dev          \* a live nonce restored by memcpy
     /\ last' = Label("ClientObj", << e.o >>, 1, 0)
  /\ UNCHANGED << rand, sigs, l >>
ClientRand ==
  /\ l <= Len(TraceEvents)
  /\ LET e == TraceEvents[l]  want == IF e.rand_pre = 1 THEN "zero" ELSE "fresh" IN
     /\ e.e = "NonceGen" /\ rand[0] # want
     /\ rand' = [rand EXCEPT ![0] = want]
     /\ last' = Label("ClientRand", << 0 >>, 1, 0)
  /\ UNCHANGED << obj, sigs, nextId, l, dev >>

\* ---- logged API calls ----------------------------------------------------------------
TNonceGen ==
  /\ l <= Len(TraceEvents)
  /\ LET e == TraceEvents[l] IN
     /\ e.e = "NonceGen"
     /\ e.pre = 3 \/ ClsNum(obj[e.o]) = e.pre
     /\ rand[0] = (IF e.rand_pre = 1 THEN "zero" ELSE "fresh")
     /\ \E cls \in GenClasses :
          /\ (cls = "secnonce_null") <=> (e.pre = 3)
          /\ (cls = "rand_null") <=> (e.rand_pre = 0 - 1 /\ e.pre # 3)
          /\ cls # "seckey_other"                       \* indistinguishable from "ok" in the logged fields
          /\ NonceGen(e.o, 0, 0, cls)
     /\ last'.ret = e.ret
     /\ e.pre # 3 => ClsNum(obj'[e.o]) = e.post
     /\ e.ret = 1 => e.rand_post = 1                      \* randomness wiped on success
  /\ l' = l + 1 /\ dev' = dev
TNonceGenCounter ==
  /\ l <= Len(TraceEvents)
  /\ LET e == TraceEvents[l] IN
     /\ e.e = "NonceGenCounter"
     /\ e.pre = 3 \/ ClsNum(obj[e.o]) = e.pre
     /\ \E cls \in CtrClasses :
          /\ (cls = "secnonce_null") <=> (e.pre = 3)
          /\ NonceGenCounter(e.o, 0, cls)
     /\ last'.ret = e.ret
     /\ e.pre # 3 => ClsNum(obj'[e.o]) = e.post
  /\ l' = l + 1 /\ dev' = dev
TPartialSign ==
  /\ l <= Len(TraceEvents)
  /\ LET e == TraceEvents[l] IN
     /\ e.e = "PartialSign"
     /\ e.pre = 3 \/ ClsNum(obj[e.o]) = e.pre
     /\ \E k \in AllKeys, cls \in SignClasses :
          /\ (cls = "secnonce_null") <=> (e.pre = 3)
          /\ e.pre # 3 => ((cls \in NullArgClasses) <=> (e.argnull = 1))
          /\ (e.pre = 1 /\ e.keymatch = 1) => (k = obj[e.o].key /\ cls # "keypair_null")
          /\ (e.pre = 1 /\ e.keymatch = 0) => (k # obj[e.o].key /\ cls # "keypair_null")
          /\ (e.pre = 1 /\ e.keymatch = 0 - 1) => cls = "keypair_null"
          /\ PartialSign(e.o, k, cls)
     /\ last'.ret = e.ret
     /\ e.pre # 3 => ClsNum(obj'[e.o]) = e.post          \* in particular: all-zero after ANY call
  /\ l' = l + 1 /\ dev' = dev

TNext == ClientObj \/ ClientRand \/ TNonceGen \/ TNonceGenCounter \/ TPartialSign
TSpec == TInit /\ [][TNext]_tvars

\* the trace is accepted iff some behaviour consumes all events: TLC reports this "invariant" violated
NotAccepted == l <= Len(TraceEvents)
=============================================================================
