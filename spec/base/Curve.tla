------------------------------- MODULE Curve -------------------------------
(***************************************************************************)
(* Affine arithmetic on y^2 = x^3 + B over GF(P), P = 3 mod 4, with a      *)
(* distinguished subgroup generator G of prime order N.  secp256k1 and the *)
(* repository's order-7/13/199 test groups (src/group_impl.h) are          *)
(* instances; cfg files bind  P <- SecpP  B <- SecpB  N <- SecpN  G <- SecpG *)
(* (see CurveParams.tla).  A point is <<x, y>> (BigNat coordinates) or Inf. *)
(***************************************************************************)
EXTENDS BigNat, Bytes
CONSTANTS P, B, N, G

Inf == << >>
IsInf(Q) == Len(Q) = 0
Three == << 3 >>
Seven == << 7 >>

FAdd(a, b) == ModAdd(a, b, P)
FSub(a, b) == ModSub(a, b, P)
FMul(a, b) == ModMul(a, b, P)
FSqr(a)    == ModMul(a, a, P)
FNeg(a)    == ModNeg(a, P)
FInv(a)    == ModInv(a, P)
FPow(a, e) == ModPow(a, e, P)
\* P = 3 (mod 4): candidate root a^((P+1)/4)
SqrtExp == Shr(Add(P, One), 2)
FSqrtCand(a) == FPow(a, SqrtExp)
IsSquare(a) == LET c == FSqrtCand(a) IN FSqr(c) = Mod(a, P)
FIsOdd(a) == IsOdd(a)

CurveRhs(x) == FAdd(FMul(FSqr(x), x), B)
IsOnCurve(Q) == IsInf(Q) \/ (Lt(Q[1], P) /\ Lt(Q[2], P) /\ FSqr(Q[2]) = CurveRhs(Q[1]))

PNeg(Q) == IF IsInf(Q) THEN Inf ELSE << Q[1], FNeg(Q[2]) >>

\* group law written with an explicit modulus so that an optional accelerator
\* (tlc2.module.Curve, off by default) can override AddRaw/MulRaw
PDblRaw(Q, p) ==
  IF IsInf(Q) \/ IsZero(Q[2]) THEN Inf
  ELSE LET l  == ModMul(ModMul(Three, ModMul(Q[1], Q[1], p), p), ModInv(ModAdd(Q[2], Q[2], p), p), p)
           x3 == ModSub(ModSub(ModMul(l, l, p), Q[1], p), Q[1], p)
       IN  << x3, ModSub(ModMul(l, ModSub(Q[1], x3, p), p), Q[2], p) >>
PAddRaw(Q, R, p) ==
  IF IsInf(Q) THEN R
  ELSE IF IsInf(R) THEN Q
  ELSE IF Q[1] = R[1] THEN (IF Q[2] = R[2] THEN PDblRaw(Q, p) ELSE Inf)
  ELSE LET l  == ModMul(ModSub(R[2], Q[2], p), ModInv(ModSub(R[1], Q[1], p), p), p)
           x3 == ModSub(ModSub(ModMul(l, l, p), Q[1], p), R[1], p)
       IN  << x3, ModSub(ModMul(l, ModSub(Q[1], x3, p), p), Q[2], p) >>
RECURSIVE PMulFromBit(_, _, _, _, _)
PMulFromBit(k, Q, p, i, acc) ==
  IF i < 0 THEN acc
  ELSE LET d == PDblRaw(acc, p)
       IN  PMulFromBit(k, Q, p, i-1, IF Bit(k, i) = 1 THEN PAddRaw(d, Q, p) ELSE d)
PMulRaw(k, Q, p) == PMulFromBit(k, Q, p, BitLen(k) - 1, Inf)

PAdd(Q, R) == PAddRaw(Q, R, P)
PDbl(Q)    == PDblRaw(Q, P)
PSub(Q, R) == PAddRaw(Q, PNeg(R), P)
PMul(k, Q) == PMulRaw(k, Q, P)
PMulG(k)   == PMulRaw(k, G, P)
RECURSIVE SumPoints(_)
SumPoints(qs) == IF Len(qs) = 0 THEN Inf ELSE PAdd(Head(qs), SumPoints(Tail(qs)))

\* scalars
SAdd(a, b) == ModAdd(a, b, N)
SSub(a, b) == ModSub(a, b, N)
SMul(a, b) == ModMul(a, b, N)
SNeg(a)    == ModNeg(a, N)
SInv(a)    == ModInv(a, N)
HalfN      == Shr(N, 1)                 \* (N-1)/2
IsHigh(s)  == Lt(HalfN, s)
ValidSecret(d) == ~IsZero(d) /\ Lt(d, N)

HasEvenY(Q) == ~FIsOdd(Q[2])
\* lift x to the point with even y (BIP-340 lift_x); <<ok, Q>>
LiftX(x) ==
  IF ~Lt(x, P) THEN << FALSE, Inf >>
  ELSE LET c == CurveRhs(x)  y == FSqrtCand(c)
       IN  IF FSqr(y) # c THEN << FALSE, Inf >>
           ELSE << TRUE, << x, IF FIsOdd(y) THEN FNeg(y) ELSE y >> >>
LiftXOdd(x, odd) == LET l == LiftX(x)
                    IN IF ~l[1] THEN l ELSE << TRUE, IF odd THEN PNeg(l[2]) ELSE l[2] >>
\* lift x to the point whose y is a quadratic residue (zkp generator/commitment encodings)
LiftXQuad(x) ==
  IF ~Lt(x, P) THEN << FALSE, Inf >>
  ELSE LET c == CurveRhs(x)  y == FSqrtCand(c)
       IN  IF FSqr(y) # c THEN << FALSE, Inf >> ELSE << TRUE, << x, y >> >>

\* encodings
X32(Q) == ToBytesBE(Q[1], 32)
Y32(Q) == ToBytesBE(Q[2], 32)
Ser33(Q) == << IF FIsOdd(Q[2]) THEN 3 ELSE 2 >> \o X32(Q)
Ser65(Q) == << 4 >> \o X32(Q) \o Y32(Q)
SerX(Q)  == X32(Q)
\* 33-byte encoding in which 33 zero bytes denote infinity (MuSig aggregate nonces)
Ser33Ext(Q) == IF IsInf(Q) THEN Zeros(33) ELSE Ser33(Q)

\* public-key parser of the C API: <<ok, Q>>
ParsePub(b) ==
  IF Len(b) = 33 /\ b[1] \in {2, 3}
  THEN LiftXOdd(FromBytesBE(SubSeq(b, 2, 33)), b[1] = 3)
  ELSE IF Len(b) = 65 /\ b[1] \in {4, 6, 7}
  THEN LET x == FromBytesBE(SubSeq(b, 2, 33))  y == FromBytesBE(SubSeq(b, 34, 65))
       IN  IF Lt(x, P) /\ Lt(y, P) /\ FSqr(y) = CurveRhs(x)
              /\ (b[1] = 4 \/ (b[1] = 7) = FIsOdd(y))
           THEN << TRUE, << x, y >> >> ELSE << FALSE, Inf >>
  ELSE << FALSE, Inf >>
ParseXOnly(b) == IF Len(b) # 32 THEN << FALSE, Inf >> ELSE LiftX(FromBytesBE(b))
Parse33Ext(b) == IF Len(b) = 33 /\ AllZero(b) THEN << TRUE, Inf >>
                 ELSE IF Len(b) = 33 THEN ParsePub(b) ELSE << FALSE, Inf >>

\* secret-key bytes -> <<valid, scalar>>
ParseSecret(b32) == LET d == FromBytesBE(b32) IN << ValidSecret(d), d >>
Scalar32(s) == ToBytesBE(s, 32)
=============================================================================
