------------------------------- MODULE Verif -------------------------------
(* Glue shared by all API machines: record comparison, seeded pseudo-random   *)
(* values, record emission for the replay direction, trace loading.            *)
EXTENDS Naturals, Sequences, TLC, Json, IOUtils, CSV, Bytes, Sha256

B2I(b) == IF b THEN 1 ELSE 0
\* every field the specification constrains must be present and equal in the observed record
SubRec(exp, act) == \A k \in DOMAIN exp : k \in DOMAIN act /\ act[k] = exp[k]

Seed == atoi(IOEnv.VERIF_SEED)
Rnd32(i) == Sha256Hash(BE32(Seed) \o BE32(i))
RndBytes(i, n) == SubSeq(Sha256Hash(BE32(Seed) \o BE32(i)) \o Sha256Hash(BE32(Seed) \o BE32(i) \o <<1>>)
                         \o Sha256Hash(BE32(Seed) \o BE32(i) \o <<2>>), 1, n)
EnvNat(name) == atoi(IOEnv[name])

\* one JSON line per call record (G direction); returns TRUE
\* (AppendLine is overridden by tlc2.module.Verif with a synchronized append: TLC's workers emit concurrently)
AppendLine(line, file) == CSVWrite("%1$s", << line >>, file)
EmitRecord(r) == AppendLine(ToJson(r), IOEnv.GEN_OUT)
\* events recorded from the implementation (T direction)
LoadTrace == ndJsonDeserialize(IOEnv.TRACE)
=============================================================================
