------------------------------- MODULE Bytes -------------------------------
(* Byte strings are sequences of integers 0..255 (never TLA+ strings: TLC interns those). *)
EXTENDS Naturals, Sequences, Bitwise
Byte == 0..255
IsBytes(b) == \A i \in 1..Len(b) : b[i] \in Byte
Zeros(n) == [i \in 1..n |-> 0]
Rep(v, n) == [i \in 1..n |-> v]
AllZero(b) == \A i \in 1..Len(b) : b[i] = 0
BXor(a, b) == [i \in 1..Len(a) |-> a[i] ^^ b[i]]
Slice(b, i, j) == SubSeq(b, i, j)          \* 1-based inclusive
Take(b, n) == SubSeq(b, 1, n)
Drop(b, n) == SubSeq(b, n+1, Len(b))
\* flip bit k (0-based; bit 0 = most significant bit of byte 1) of b
FlipBit(b, k) == [b EXCEPT ![(k \div 8) + 1] = @ ^^ (2^(7 - (k % 8)))]
BE32(n) == << (n \div 16777216) % 256, (n \div 65536) % 256, (n \div 256) % 256, n % 256 >>
RECURSIVE Flatten(_)
Flatten(ss) == IF Len(ss) = 0 THEN << >> ELSE Head(ss) \o Flatten(Tail(ss))
\* lexicographic order on byte strings: -1/0/1 as 0/1/2
RECURSIVE LexCmpFrom(_, _, _)
LexCmpFrom(a, b, i) ==
  IF i > Len(a) /\ i > Len(b) THEN 1
  ELSE IF i > Len(a) THEN 0
  ELSE IF i > Len(b) THEN 2
  ELSE IF a[i] < b[i] THEN 0
  ELSE IF a[i] > b[i] THEN 2
  ELSE LexCmpFrom(a, b, i+1)
LexCmp(a, b) == LexCmpFrom(a, b, 1)
=============================================================================
