------------------------------- MODULE Hmac -------------------------------
(* HMAC-SHA-256 (RFC 2104), the RFC 6979 HMAC-DRBG exactly as the library uses it *)
(* (initialize with an arbitrary-length seed, successive generate calls with the   *)
(* "retry" update), and BIP-340 tagged hashes computed from the tag string.        *)
EXTENDS Bytes, Sha256

HmacKey(key) == IF Len(key) <= 64 THEN key \o Zeros(64 - Len(key)) ELSE Sha256Hash(key) \o Zeros(32)
Hmac(key, msg) ==
  LET k == HmacKey(key)
  IN  Sha256Hash(BXor(k, Rep(92, 64)) \o Sha256Hash(BXor(k, Rep(54, 64)) \o msg))

\* DRBG state: <<k, v, retry>>
DrbgInit(seed) ==
  LET v0 == Rep(1, 32)  k0 == Zeros(32)
      k1 == Hmac(k0, v0 \o <<0>> \o seed)   v1 == Hmac(k1, v0)
      k2 == Hmac(k1, v1 \o <<1>> \o seed)   v2 == Hmac(k2, v1)
  IN  << k2, v2, 0 >>

RECURSIVE DrbgFill(_, _, _, _)
DrbgFill(k, v, outlen, acc) ==
  IF outlen = 0 THEN << acc, v >>
  ELSE LET v1 == Hmac(k, v)
           now == IF outlen > 32 THEN 32 ELSE outlen
       IN  DrbgFill(k, v1, outlen - now, acc \o SubSeq(v1, 1, now))

\* returns << output bytes, new state >>
DrbgGenerate(st, outlen) ==
  LET k0 == st[1]  v0 == st[2]
      k1 == IF st[3] = 1 THEN Hmac(k0, v0 \o <<0>>) ELSE k0
      v1 == IF st[3] = 1 THEN Hmac(k1, v0) ELSE v0
      f  == DrbgFill(k1, v1, outlen, << >>)
  IN  << f[1], << k1, f[2], 1 >> >>

\* the (count+1)-th 32-byte output of a DRBG seeded with seed
RECURSIVE DrbgNth(_, _)
DrbgNth(st, count) == LET g == DrbgGenerate(st, 32)
                      IN IF count = 0 THEN g[1] ELSE DrbgNth(g[2], count - 1)

TagHash(tag, msg) == LET t == Sha256Hash(tag) IN Sha256Hash(t \o t \o msg)
=============================================================================
