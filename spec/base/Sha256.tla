------------------------------- MODULE Sha256 -------------------------------
(***************************************************************************)
(* SHA-256 (FIPS 180-4) on byte sequences.  TLC integers are 32-bit signed *)
(* and + throws on overflow, so a word is a pair <<hi, lo>> of 16-bit      *)
(* halves.  The streaming interface (Init / Sha256Compress / ShaPad) is what        *)
(* ShaStream.tla transcribes the C buffering against.                      *)
(* tlc2.module.Sha256 overrides Sha256Hash and Sha256Compress with java.security       *)
(* MessageDigest / a direct implementation; spec/selftest compares.        *)
(***************************************************************************)
EXTENDS Naturals, Sequences, Bitwise

ShaM16 == 65536
WAdd(x, y) == LET lo == x[2] + y[2]
                  hi == x[1] + y[1] + (lo \div ShaM16)
              IN  << hi % ShaM16, lo % ShaM16 >>
WXor(x, y) == << x[1] ^^ y[1], x[2] ^^ y[2] >>
WAnd(x, y) == << x[1] & y[1], x[2] & y[2] >>
WNot(x)    == << 65535 - x[1], 65535 - x[2] >>
WRotrS(x, n) == \* 0 <= n < 16
  IF n = 0 THEN x ELSE
  << (x[1] \div 2^n) + ((x[2] % 2^n) * 2^(16-n)),
     (x[2] \div 2^n) + ((x[1] % 2^n) * 2^(16-n)) >>
WRotr(x, n) == IF n < 16 THEN WRotrS(x, n) ELSE WRotrS(<< x[2], x[1] >>, n - 16)
WShr(x, n)  == IF n < 16
              THEN << x[1] \div 2^n, (x[2] \div 2^n) + ((x[1] % 2^n) * 2^(16-n)) >>
              ELSE << 0, x[1] \div 2^(n-16) >>

ShaCh(x, y, z)  == WXor(WAnd(x, y), WAnd(WNot(x), z))
ShaMaj(x, y, z) == WXor(WXor(WAnd(x, y), WAnd(x, z)), WAnd(y, z))
BSig0(x) == WXor(WXor(WRotr(x, 2), WRotr(x, 13)), WRotr(x, 22))
BSig1(x) == WXor(WXor(WRotr(x, 6), WRotr(x, 11)), WRotr(x, 25))
SSig0(x) == WXor(WXor(WRotr(x, 7), WRotr(x, 18)), WShr(x, 3))
SSig1(x) == WXor(WXor(WRotr(x, 17), WRotr(x, 19)), WShr(x, 10))

ShaK == <<<<17034,12184>>, <<28983,17553>>, <<46528,64463>>, <<59829,56229>>,
   <<14678,49755>>, <<23025,4593>>, <<37439,33444>>, <<43804,24277>>,
   <<55303,43672>>, <<4739,23297>>, <<9265,34238>>, <<21772,32195>>,
   <<29374,23924>>, <<32990,45566>>, <<39900,1703>>, <<49563,61812>>,
   <<58523,27073>>, <<61374,18310>>, <<4033,40390>>, <<9228,41420>>,
   <<11753,11375>>, <<19060,33962>>, <<23728,43484>>, <<30457,35034>>,
   <<38974,20818>>, <<43057,50797>>, <<45059,10184>>, <<48985,32711>>,
   <<50912,3059>>, <<54695,37191>>, <<1738,25425>>, <<5161,10599>>,
   <<10167,2693>>, <<11803,8504>>, <<19756,28156>>, <<21304,3347>>,
   <<25866,29524>>, <<30314,2747>>, <<33218,51502>>, <<37490,11397>>,
   <<41663,59553>>, <<43034,26187>>, <<49739,35696>>, <<51052,20899>>,
   <<53650,59417>>, <<54937,1572>>, <<62478,13701>>, <<4202,41072>>,
   <<6564,49430>>, <<7735,27656>>, <<10056,30540>>, <<13488,48309>>,
   <<14620,3251>>, <<20184,43594>>, <<23452,51791>>, <<26670,28659>>,
   <<29839,33518>>, <<30885,25455>>, <<33992,30740>>, <<36039,520>>,
   <<37054,65530>>, <<42064,27883>>, <<48889,41975>>, <<50801,30962>>>>
ShaInit == <<<<27145,58983>>, <<47975,44677>>, <<15470,62322>>, <<42319,62778>>, <<20750,21119>>, <<39685,26764>>, <<8067,55723>>, <<23520,52505>>>>

\* block: 64 bytes -> 16 words
ShaBlockWords(b) == [i \in 1..16 |-> << b[4*i-3] * 256 + b[4*i-2], b[4*i-1] * 256 + b[4*i] >>]

RECURSIVE ShaSchedule(_, _)
ShaSchedule(w, t) == \* extends w (length t-1) up to 64 words
  IF t > 64 THEN w
  ELSE ShaSchedule(Append(w, WAdd(WAdd(SSig1(w[t-2]), w[t-7]), WAdd(SSig0(w[t-15]), w[t-16]))), t+1)

RECURSIVE ShaRounds(_, _, _)
ShaRounds(s, w, t) == \* s = <<a,b,c,d,e,f,g,h>>
  IF t > 64 THEN s
  ELSE LET T1 == WAdd(WAdd(WAdd(s[8], BSig1(s[5])), WAdd(ShaCh(s[5], s[6], s[7]), ShaK[t])), w[t])
           T2 == WAdd(BSig0(s[1]), ShaMaj(s[1], s[2], s[3]))
       IN  ShaRounds(<< WAdd(T1, T2), s[1], s[2], s[3], WAdd(s[4], T1), s[5], s[6], s[7] >>, w, t+1)

\* one compression: state (8 words), block (64 bytes) -> state
Sha256Compress(state, block) ==
  LET w == ShaSchedule(ShaBlockWords(block), 17)
      r == ShaRounds(state, w, 1)
  IN  [i \in 1..8 |-> WAdd(state[i], r[i])]

\* padding for a message of total length n bytes: 0x80, zeros, 64-bit big-endian bit length
ShaPadLen(n) == 1 + ((119 - (n % 64)) % 64) + 8
ShaPad(n) ==
  LET z == ShaPadLen(n) - 9
      hiBits == n \div 536870912          \* (n*8) div 2^32, n < 2^31
      loBits == (n % 536870912)           \* (n*8) mod 2^32 = loBits * 8
      lo32 == << (loBits \div 8192), (loBits % 8192) * 8 >>   \* as <<hi16, lo16>>
  IN  << 128 >> \o [i \in 1..z |-> 0]
      \o << 0, 0, 0, hiBits >>
      \o << lo32[1] \div 256, lo32[1] % 256, lo32[2] \div 256, lo32[2] % 256 >>

RECURSIVE ShaBlocks(_, _, _)
ShaBlocks(state, m, off) ==
  IF off >= Len(m) THEN state
  ELSE ShaBlocks(Sha256Compress(state, SubSeq(m, off+1, off+64)), m, off+64)

ShaStateBytes(s) ==
  [i \in 1..32 |-> LET wd == s[((i-1) \div 4) + 1]  k == (i-1) % 4
                   IN  IF k = 0 THEN wd[1] \div 256 ELSE IF k = 1 THEN wd[1] % 256
                       ELSE IF k = 2 THEN wd[2] \div 256 ELSE wd[2] % 256]

\* finish a stream: state after `done` bytes (multiple of 64) + remaining tail bytes
ShaFinalize(state, tail, total) == ShaStateBytes(ShaBlocks(state, tail \o ShaPad(total), 0))

Sha256Hash(m) == ShaFinalize(ShaInit, m, Len(m))

\* state after absorbing a whole number of blocks (used for midstates)
ShaAbsorb(state, m) == ShaBlocks(state, m, 0)
=============================================================================
