package tlc2.module;

import java.io.FileOutputStream;
import java.nio.charset.StandardCharsets;
import tlc2.value.impl.BoolValue;
import tlc2.value.impl.StringValue;
import tlc2.value.impl.Value;

/* Override for spec/base/Verif.tla!AppendLine: one atomic append per record (TLC workers emit
 * concurrently and CSVWrite splits lines longer than its buffer). */
public final class Verif {
  private Verif() {}
  public static final long serialVersionUID = 20260922L;
  private static final Object LOCK = new Object();

  public static Value AppendLine(final Value line, final Value file) throws Exception {
    final String s = ((StringValue) line).val.toString() + "\n";
    final String f = ((StringValue) file).val.toString();
    synchronized (LOCK) {
      try (FileOutputStream out = new FileOutputStream(f, true)) {
        out.write(s.getBytes(StandardCharsets.UTF_8));
      }
    }
    return BoolValue.ValTrue;
  }
}
