package tlc2.module;

import java.security.MessageDigest;
import tlc2.value.impl.IntValue;
import tlc2.value.impl.TupleValue;
import tlc2.value.impl.Value;

/* Overrides for spec/base/Sha256.tla: Hash (MessageDigest) and Compress (direct FIPS 180-4). */
public final class Sha256 {
  private Sha256() {}
  public static final long serialVersionUID = 20260922L;

  private static final int[] K = {
    0x428a2f98,0x71374491,0xb5c0fbcf,0xe9b5dba5,0x3956c25b,0x59f111f1,0x923f82a4,0xab1c5ed5,0xd807aa98,0x12835b01,0x243185be,0x550c7dc3,0x72be5d74,0x80deb1fe,0x9bdc06a7,0xc19bf174,
    0xe49b69c1,0xefbe4786,0x0fc19dc6,0x240ca1cc,0x2de92c6f,0x4a7484aa,0x5cb0a9dc,0x76f988da,0x983e5152,0xa831c66d,0xb00327c8,0xbf597fc7,0xc6e00bf3,0xd5a79147,0x06ca6351,0x14292967,
    0x27b70a85,0x2e1b2138,0x4d2c6dfc,0x53380d13,0x650a7354,0x766a0abb,0x81c2c92e,0x92722c85,0xa2bfe8a1,0xa81a664b,0xc24b8b70,0xc76c51a3,0xd192e819,0xd6990624,0xf40e3585,0x106aa070,
    0x19a4c116,0x1e376c08,0x2748774c,0x34b0bcb5,0x391c0cb3,0x4ed8aa4a,0x5b9cca4f,0x682e6ff3,0x748f82ee,0x78a5636f,0x84c87814,0x8cc70208,0x90befffa,0xa4506ceb,0xbef9a3f7,0xc67178f2 };

  static byte[] bytes(final Value v) {
    final Value[] e = ((TupleValue) v.toTuple()).elems;
    final byte[] b = new byte[e.length];
    for (int i = 0; i < e.length; i++) b[i] = (byte) ((IntValue) e[i]).val;
    return b;
  }
  static Value tuple(final byte[] b) {
    final Value[] e = new Value[b.length];
    for (int i = 0; i < b.length; i++) e[i] = IntValue.gen(b[i] & 0xff);
    return new TupleValue(e);
  }

  public static Value Sha256Hash(final Value m) throws Exception {
    return tuple(MessageDigest.getInstance("SHA-256").digest(bytes(m)));
  }

  public static Value Sha256Compress(final Value state, final Value block) {
    final Value[] sv = ((TupleValue) state.toTuple()).elems;
    final int[] s = new int[8];
    for (int i = 0; i < 8; i++) {
      final Value[] w = ((TupleValue) sv[i].toTuple()).elems;
      s[i] = (((IntValue) w[0]).val << 16) | ((IntValue) w[1]).val;
    }
    final byte[] b = bytes(block);
    final int[] w = new int[64];
    for (int i = 0; i < 16; i++)
      w[i] = ((b[4*i] & 0xff) << 24) | ((b[4*i+1] & 0xff) << 16) | ((b[4*i+2] & 0xff) << 8) | (b[4*i+3] & 0xff);
    for (int t = 16; t < 64; t++) {
      final int s0 = Integer.rotateRight(w[t-15], 7) ^ Integer.rotateRight(w[t-15], 18) ^ (w[t-15] >>> 3);
      final int s1 = Integer.rotateRight(w[t-2], 17) ^ Integer.rotateRight(w[t-2], 19) ^ (w[t-2] >>> 10);
      w[t] = w[t-16] + s0 + w[t-7] + s1;
    }
    int a = s[0], bb = s[1], c = s[2], d = s[3], e = s[4], f = s[5], g = s[6], h = s[7];
    for (int t = 0; t < 64; t++) {
      final int S1 = Integer.rotateRight(e, 6) ^ Integer.rotateRight(e, 11) ^ Integer.rotateRight(e, 25);
      final int ch = (e & f) ^ (~e & g);
      final int t1 = h + S1 + ch + K[t] + w[t];
      final int S0 = Integer.rotateRight(a, 2) ^ Integer.rotateRight(a, 13) ^ Integer.rotateRight(a, 22);
      final int maj = (a & bb) ^ (a & c) ^ (bb & c);
      final int t2 = S0 + maj;
      h = g; g = f; f = e; e = d + t1; d = c; c = bb; bb = a; a = t1 + t2;
    }
    final int[] r = { s[0]+a, s[1]+bb, s[2]+c, s[3]+d, s[4]+e, s[5]+f, s[6]+g, s[7]+h };
    final Value[] out = new Value[8];
    for (int i = 0; i < 8; i++)
      out[i] = new TupleValue(new Value[] { IntValue.gen(r[i] >>> 16), IntValue.gen(r[i] & 0xffff) });
    return new TupleValue(out);
  }
}
