package tlc2.module;

import java.math.BigInteger;
import tlc2.value.impl.BoolValue;
import tlc2.value.impl.IntValue;
import tlc2.value.impl.TupleValue;
import tlc2.value.impl.Value;

/* java.math.BigInteger overrides for spec/base/BigNat.tla (BASE = 256, little-endian digit tuples).
 * Only arithmetic is overridden; everything built on top (curve, schemes, parsers) stays TLA+. */
public final class BigNat {
  private BigNat() {}
  public static final long serialVersionUID = 20260922L;

  static BigInteger toBig(final Value v) {
    final TupleValue t = (TupleValue) v.toTuple();
    final Value[] e = t.elems;
    final byte[] mag = new byte[e.length];
    for (int i = 0; i < e.length; i++) {
      mag[e.length - 1 - i] = (byte) ((IntValue) e[i]).val;
    }
    return new BigInteger(1, mag);
  }

  static Value fromBig(final BigInteger b) {
    if (b.signum() == 0) return new TupleValue(new Value[0]);
    byte[] mag = b.toByteArray();
    int off = 0;
    while (off < mag.length && mag[off] == 0) off++;
    final int n = mag.length - off;
    final Value[] e = new Value[n];
    for (int i = 0; i < n; i++) e[i] = IntValue.gen(mag[mag.length - 1 - i] & 0xff);
    return new TupleValue(e);
  }

  public static Value Add(final Value a, final Value b) { return fromBig(toBig(a).add(toBig(b))); }
  public static Value Sub(final Value a, final Value b) {
    final BigInteger r = toBig(a).subtract(toBig(b));
    if (r.signum() < 0) throw new RuntimeException("BigNat!Sub: negative result");
    return fromBig(r);
  }
  public static Value Mul(final Value a, final Value b) { return fromBig(toBig(a).multiply(toBig(b))); }
  public static Value DivMod(final Value a, final Value b) {
    final BigInteger[] qr = toBig(a).divideAndRemainder(toBig(b));
    return new TupleValue(new Value[] { fromBig(qr[0]), fromBig(qr[1]) });
  }
  public static Value Div(final Value a, final Value b) { return fromBig(toBig(a).divide(toBig(b))); }
  public static Value Mod(final Value a, final Value b) { return fromBig(toBig(a).mod(toBig(b))); }
  public static Value Cmp(final Value a, final Value b) { return IntValue.gen(toBig(a).compareTo(toBig(b)) + 1); }
  public static Value Lt(final Value a, final Value b) { return toBig(a).compareTo(toBig(b)) < 0 ? BoolValue.ValTrue : BoolValue.ValFalse; }
  public static Value Leq(final Value a, final Value b) { return toBig(a).compareTo(toBig(b)) <= 0 ? BoolValue.ValTrue : BoolValue.ValFalse; }
  public static Value Bit(final Value a, final Value i) { return IntValue.gen(toBig(a).testBit(((IntValue) i).val) ? 1 : 0); }
  public static Value BitLen(final Value a) { return IntValue.gen(toBig(a).bitLength()); }
  public static Value Pow2(final Value k) { return fromBig(BigInteger.ONE.shiftLeft(((IntValue) k).val)); }
  public static Value Shr(final Value a, final Value k) { return fromBig(toBig(a).shiftRight(((IntValue) k).val)); }
  public static Value ModAdd(final Value a, final Value b, final Value m) { return fromBig(toBig(a).add(toBig(b)).mod(toBig(m))); }
  public static Value ModSub(final Value a, final Value b, final Value m) { return fromBig(toBig(a).subtract(toBig(b)).mod(toBig(m))); }
  public static Value ModMul(final Value a, final Value b, final Value m) { return fromBig(toBig(a).multiply(toBig(b)).mod(toBig(m))); }
  public static Value ModNeg(final Value a, final Value m) { return fromBig(toBig(a).negate().mod(toBig(m))); }
  public static Value ModPow(final Value x, final Value e, final Value m) { return fromBig(toBig(x).modPow(toBig(e), toBig(m))); }
  public static Value ModInv(final Value a, final Value m) {
    final BigInteger M = toBig(m), A = toBig(a).mod(M);
    if (A.signum() == 0) return fromBig(BigInteger.ZERO);
    return fromBig(A.modInverse(M));
  }
  public static Value FromBytesBE(final Value b) {
    final Value[] e = ((TupleValue) b.toTuple()).elems;
    final byte[] mag = new byte[e.length];
    for (int i = 0; i < e.length; i++) mag[i] = (byte) ((IntValue) e[i]).val;
    return fromBig(new BigInteger(1, mag));
  }
  public static Value ToBytesBE(final Value x, final Value len) {
    final int n = ((IntValue) len).val;
    final Value[] d = ((TupleValue) x.toTuple()).elems;
    if (d.length > n) throw new RuntimeException("BigNat!ToBytesBE: value does not fit");
    final Value[] e = new Value[n];
    for (int i = 0; i < n; i++) { final int j = n - 1 - i; e[i] = j < d.length ? d[j] : IntValue.gen(0); }
    return new TupleValue(e);
  }
}
