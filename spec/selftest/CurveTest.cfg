CONSTANTS P <- SecpP  B <- SecpB  N <- SecpN  G <- SecpG
