CONSTANT LIMIT = 128
INIT Init
NEXT Next
INVARIANT OK
CHECK_DEADLOCK FALSE
