------------------------------- MODULE ShaTest -------------------------------
EXTENDS Sha256, TLC
Abc == <<97, 98, 99>>
AbcHash == <<186,120,22,191,143,1,207,234,65,65,64,222,93,174,34,35,176,3,97,163,150,23,122,156,180,16,255,97,242,0,21,173>>
EmptyHash == <<227,176,196,66,152,252,28,20,154,251,244,200,153,111,185,36,39,174,65,228,100,155,147,76,164,149,153,27,120,82,184,85>>
Msg(n) == [i \in 1..n |-> (i * 7 + n) % 256]
\* streaming = one-shot, for lengths around the block boundaries
StreamOK(n) == LET m == Msg(n)  k == (n \div 64) * 64
               IN ShaFinalize(ShaAbsorb(ShaInit, SubSeq(m, 1, k)), SubSeq(m, k+1, n), n) = Sha256Hash(m)
ASSUME Sha256Hash(Abc) = AbcHash
ASSUME Sha256Hash(<<>>) = EmptyHash
ASSUME \A n \in {0, 1, 55, 56, 57, 63, 64, 65, 119, 120, 128, 200} : StreamOK(n)
ASSUME PrintT(<<"sha", Sha256Hash(Msg(55)), Sha256Hash(Msg(56)), Sha256Hash(Msg(64)), Sha256Hash(Msg(200))>>)
=============================================================================
