------------------------------- MODULE OverrideDiff -------------------------------
(* Differential self-test of the Java overrides: the same expressions are evaluated once with and once    *)
(* without tlc2.module.{BigNat,Sha256} on the class path; bin/selftest compares the printed values.        *)
EXTENDS BigNat, Sha256, CurveParams, TLC
A == FromBytesBE([i \in 1..32 |-> (i * 73 + 5) % 256])
B == FromBytesBE([i \in 1..32 |-> (i * 151 + 9) % 256])
C == FromBytesBE([i \in 1..64 |-> (i * 29 + 1) % 256])
\* evaluated twice (pure schoolbook TLA+ / BigInteger overrides) and compared by bin/selftest.  ModPow with 256-bit exponents and
\* ModInv are too slow in pure TLA+ (hours); their algorithms are covered exhaustively at BASE = 4, and their overrides are pinned
\* below by algebraic identities (Fermat, a * a^-1 = 1) that use only operations compared here.
Vals == << Add(A, B), Sub(SecpP, A), Mul(A, B), DivMod(C, SecpN), Mod(Mul(A, B), SecpP), ModAdd(A, B, SecpN), ModSub(A, B, SecpN),
           ModMul(A, B, SecpP), ModNeg(A, SecpN), ModPow(A, FromNat(5), SecpP),
           Shr(B, 77), Bit(A, 200), BitLen(C), Pow2(255), Lt(A, B), Leq(B, B), ToBytesBE(A, 40), FromBytesBE(ToBytesBE(B, 33)),
           Sha256Hash(ToBytesBE(A, 32)), Sha256Hash([i \in 1..130 |-> i % 256]),
           Sha256Compress(ShaInit, [i \in 1..64 |-> (i * 3) % 256]) >>
Identities(dummy) == /\ ModMul(ModInv(A, SecpN), A, SecpN) = One
              /\ ModMul(ModInv(B, SecpP), B, SecpP) = One
              /\ ModPow(A, Sub(SecpP, One), SecpP) = One
              /\ ModPow(B, Sub(SecpN, One), SecpN) = One
              /\ ModInv(Zero, SecpP) = Zero
ASSUME PrintT(<< "VALS", Vals >>)
=============================================================================
