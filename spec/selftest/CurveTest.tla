------------------------------- MODULE CurveTest -------------------------------
EXTENDS Curve, CurveParams, TLC, Json
K1 == FromBytesBE([i \in 1..32 |-> (i * 37) % 256])
Q1 == PMulG(K1)
ASSUME IsOnCurve(G)
ASSUME IsInf(PMul(N, G))
ASSUME IsOnCurve(Q1) /\ PAdd(Q1, PNeg(Q1)) = Inf
ASSUME PMul(FromNat(5), Q1) = PAdd(PAdd(PDbl(PDbl(Q1)), Q1), Inf)
ASSUME LiftX(Q1[1])[1] /\ LiftX(Q1[1])[2][1] = Q1[1]
ASSUME ParsePub(Ser33(Q1)) = <<TRUE, Q1>> /\ ParsePub(Ser65(Q1)) = <<TRUE, Q1>>
ASSUME \A i \in 1..20 : IsOnCurve(PMulG(FromNat(i * 1000003)))
ASSUME PrintT(ToJson([a |-> Ser33(Q1), b |-> <<>>, c |-> 5, d |-> [x |-> 1]]))
=============================================================================
