------------------------------- MODULE BigNat4 ------------------------------
(***************************************************************************)
(* Arbitrary-precision naturals for TLC (whose integers are 32-bit).       *)
(* A number is its canonical little-endian digit sequence in base BASE     *)
(* (no most-significant zero digit; zero is the empty sequence).           *)
(*                                                                         *)
(* Every operator below has a plain TLA+ definition (schoolbook            *)
(* algorithms).  tlc2.module.BigNat (spec/overrides) overrides the         *)
(* arithmetic ones with java.math.BigInteger for BASE = 256; agreement of  *)
(* the two is checked by spec/selftest (exhaustively at BASE = 4 against   *)
(* Naturals arithmetic, and on seeded 256/512-bit operands with/without    *)
(* overrides).                                                             *)
(***************************************************************************)
EXTENDS Naturals, Sequences

BASE == 4

IsDigits(d) == \A i \in 1..Len(d) : d[i] \in 0..(BASE-1)
IsCanon(d)  == IsDigits(d) /\ (Len(d) > 0 => d[Len(d)] # 0)

RECURSIVE Strip(_)
Strip(d) == IF Len(d) > 0 /\ d[Len(d)] = 0 THEN Strip(SubSeq(d, 1, Len(d)-1)) ELSE d

Zero == << >>
One  == << 1 >>
Two  == << 2 >>

RECURSIVE FromNat(_)
FromNat(n) == IF n = 0 THEN << >> ELSE << n % BASE >> \o FromNat(n \div BASE)

Digit(d, i) == IF i <= Len(d) THEN d[i] ELSE 0
Max2(a, b)  == IF a >= b THEN a ELSE b

IsZero(a) == Len(a) = 0
Eq(a, b)  == a = b

\* comparison: -1, 0, 1 encoded as 0 (less), 1 (equal), 2 (greater)
RECURSIVE CmpFrom(_, _, _)
CmpFrom(a, b, i) ==
  IF i = 0 THEN 1
  ELSE IF Digit(a, i) < Digit(b, i) THEN 0
  ELSE IF Digit(a, i) > Digit(b, i) THEN 2
  ELSE CmpFrom(a, b, i-1)
Cmp(a, b) == CmpFrom(a, b, Max2(Len(a), Len(b)))
Lt(a, b)  == Cmp(a, b) = 0
Leq(a, b) == Cmp(a, b) # 2

RECURSIVE AddFrom(_, _, _, _)
AddFrom(a, b, i, c) ==
  IF i > Len(a) /\ i > Len(b)
  THEN (IF c = 0 THEN << >> ELSE << c >>)
  ELSE LET s == Digit(a, i) + Digit(b, i) + c
       IN  << s % BASE >> \o AddFrom(a, b, i+1, s \div BASE)
Add(a, b) == Strip(AddFrom(a, b, 1, 0))

\* Sub(a,b) requires b <= a
RECURSIVE SubFrom(_, _, _, _)
SubFrom(a, b, i, br) ==
  IF i > Len(a) THEN << >>
  ELSE LET s == Digit(a, i) + BASE - Digit(b, i) - br
       IN  << s % BASE >> \o SubFrom(a, b, i+1, 1 - (s \div BASE))
Sub(a, b) == Strip(SubFrom(a, b, 1, 0))

\* multiply by a single digit m (0 <= m < BASE) and shift by k digits
RECURSIVE MulDigitFrom(_, _, _, _)
MulDigitFrom(a, m, i, c) ==
  IF i > Len(a) THEN (IF c = 0 THEN << >> ELSE << c >>)
  ELSE LET s == a[i] * m + c
       IN  << s % BASE >> \o MulDigitFrom(a, m, i+1, s \div BASE)
MulDigit(a, m) == Strip(MulDigitFrom(a, m, 1, 0))
ShiftDigits(a, k) == IF Len(a) = 0 THEN a ELSE [i \in 1..k |-> 0] \o a

RECURSIVE MulFrom(_, _, _)
MulFrom(a, b, j) ==
  IF j > Len(b) THEN Zero
  ELSE Add(ShiftDigits(MulDigit(a, b[j]), j-1), MulFrom(a, b, j+1))
Mul(a, b) == MulFrom(a, b, 1)

\* long division, most significant digit first: returns <<quotient, remainder>>; b # 0
QDigit(r, b) == CHOOSE q \in 0..(BASE-1) :
                   /\ Leq(MulDigit(b, q), r)
                   /\ Lt(r, Add(MulDigit(b, q), b))
RECURSIVE DivFrom(_, _, _, _, _)
DivFrom(a, b, i, q, r) ==
  IF i = 0 THEN << Strip(q), r >>
  ELSE LET r1 == Strip(<< a[i] >> \o r)
           qd == QDigit(r1, b)
       IN  DivFrom(a, b, i-1, << qd >> \o q, Sub(r1, MulDigit(b, qd)))
DivMod(a, b) == DivFrom(a, b, Len(a), << >>, << >>)
Div(a, b) == DivMod(a, b)[1]
Mod(a, b) == DivMod(a, b)[2]

\* bit i (0 = least significant)
DigitBits == CHOOSE k \in 1..16 : 2^k = BASE
Bit(a, i) == (Digit(a, (i \div DigitBits) + 1) \div (2^(i % DigitBits))) % 2
BitLen(a) == IF Len(a) = 0 THEN 0
             ELSE (Len(a)-1) * DigitBits
                  + (CHOOSE k \in 1..DigitBits : 2^(k-1) <= a[Len(a)] /\ a[Len(a)] < 2^k)
Pow2(k)   == ShiftDigits(<< 2^(k % DigitBits) >>, k \div DigitBits)
Shr(a, k) == Div(a, Pow2(k))
IsOdd(a)  == Bit(a, 0) = 1

ModAdd(a, b, m) == Mod(Add(a, b), m)
ModSub(a, b, m) == Mod(Sub(Add(Mod(a, m), m), Mod(b, m)), m)
ModMul(a, b, m) == Mod(Mul(a, b), m)
ModNeg(a, m)    == Mod(Sub(m, Mod(a, m)), m)

RECURSIVE ModPowFrom(_, _, _, _, _)
ModPowFrom(x, e, m, i, acc) ==
  IF i < 0 THEN acc
  ELSE LET sq == ModMul(acc, acc, m)
       IN  ModPowFrom(x, e, m, i-1, IF Bit(e, i) = 1 THEN ModMul(sq, x, m) ELSE sq)
ModPow(x, e, m) == ModPowFrom(Mod(x, m), e, m, BitLen(e)-1, Mod(One, m))

\* inverse modulo a PRIME m (Fermat); 0 maps to 0
ModInv(a, m) == ModPow(a, Sub(m, Two), m)

-----------------------------------------------------------------------------
\* byte-string conversions (bytes are big-endian, as in the C API); BASE = 256 only
Rev(s) == [i \in 1..Len(s) |-> s[Len(s) + 1 - i]]
FromBytesBE(b) == Strip(Rev(b))
\* ToBytesBE(x, len) requires x < 256^len
ToBytesBE(x, len) == [i \in 1..len |-> Digit(x, len + 1 - i)]
FromBytesLE(b) == Strip(b)
ToBytesLE(x, len) == [i \in 1..len |-> Digit(x, i)]

\* small values back to TLC integers (caller guarantees x < 2^31)
RECURSIVE ToNatFrom(_, _)
ToNatFrom(a, i) == IF i > Len(a) THEN 0 ELSE a[i] + BASE * ToNatFrom(a, i+1)
ToNat(a) == ToNatFrom(a, 1)

=============================================================================
