
