--------------------------- MODULE BigNatSmallTest ---------------------------
(* Exhaustive agreement of the schoolbook BigNat algorithms with Naturals     *)
(* arithmetic at BASE = 4 (BigNat4.tla is generated from BigNat.tla by sed).  *)
EXTENDS BigNat4, TLC
CONSTANT LIMIT
VARIABLES a, b
Val(d) == ToNat(d)
Init == a \in 0..(LIMIT-1) /\ b \in 0..(LIMIT-1)
Next == UNCHANGED <<a, b>>
OK ==
  LET A == FromNat(a)  B == FromNat(b) IN
  /\ IsCanon(A) /\ Val(A) = a
  /\ IsCanon(Add(A, B)) /\ Val(Add(A, B)) = a + b
  /\ IsCanon(Mul(A, B)) /\ Val(Mul(A, B)) = a * b
  /\ (b <= a => IsCanon(Sub(A, B)) /\ Val(Sub(A, B)) = a - b)
  /\ (b > 0 => /\ IsCanon(Div(A, B)) /\ Val(Div(A, B)) = a \div b
               /\ IsCanon(Mod(A, B)) /\ Val(Mod(A, B)) = a % b)
  /\ Lt(A, B) = (a < b) /\ Leq(A, B) = (a <= b)
  /\ \A i \in 0..9 : Bit(A, i) = (a \div 2^i) % 2
  /\ BitLen(A) = (IF a = 0 THEN 0 ELSE CHOOSE k \in 1..10 : 2^(k-1) <= a /\ a < 2^k)
  /\ \A k \in 0..9 : Val(Shr(A, k)) = a \div 2^k
  /\ (b > 1 /\ a > 0 /\ a < 16 => \A e \in 0..5 : Val(ModPow(A, FromNat(e), B)) = (a^e) % b)
  /\ (b > 0 => Val(ModAdd(A, B, B)) = a % b /\ Val(ModNeg(A, B)) = (b - (a % b)) % b)
  /\ (b > 0 => \A c \in {0, 1, 3, 77} : Val(ModSub(A, FromNat(c), B)) = ((a % b) + b - (c % b)) % b)
=============================================================================
